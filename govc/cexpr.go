package main

// Contract expression language: lexer, AST, Pratt parser.
//
// Grammar (Go-like, extended):
//   expr    := ('forall'|'exists') binders '::' expr | impl
//   impl    := or ['==>' impl] | or '<==>' or
//   or      := and {'||' and}
//   and     := cmp {'&&' cmp}
//   cmp     := add [('=='|'!='|'<'|'<='|'>'|'>='|'in') add]
//   add     := mul {('+'|'-') mul}
//   mul     := unary {('*'|'/'|'%') unary}
//   unary   := ('!'|'-') unary | postfix
//   postfix := primary {'.' ident | '[' expr ']' | '[' expr? ':' expr? ']' | '(' args ')'}
//   primary := ident | int | string | char | '(' expr ')'

import (
	"fmt"
	"strconv"
	"strings"
	"unicode"
)

type tokKind int

const (
	tEOF tokKind = iota
	tIdent
	tInt
	tString
	tOp
)

type ctok struct {
	kind tokKind
	s    string
	pos  int
}

func lexExpr(src string) ([]ctok, error) {
	var toks []ctok
	i := 0
	for i < len(src) {
		c := src[i]
		switch {
		case c == ' ' || c == '\t' || c == '\n':
			i++
		case unicode.IsLetter(rune(c)) || c == '_' || c == '$':
			j := i
			for j < len(src) && (unicode.IsLetter(rune(src[j])) || unicode.IsDigit(rune(src[j])) || src[j] == '_' || src[j] == '$') {
				j++
			}
			toks = append(toks, ctok{tIdent, src[i:j], i})
			i = j
		case unicode.IsDigit(rune(c)):
			j := i
			for j < len(src) && unicode.IsDigit(rune(src[j])) {
				j++
			}
			toks = append(toks, ctok{tInt, src[i:j], i})
			i = j
		case c == '"':
			j := i + 1
			for j < len(src) && src[j] != '"' {
				if src[j] == '\\' {
					j++
				}
				j++
			}
			if j >= len(src) {
				return nil, fmt.Errorf("unterminated string at %d", i)
			}
			s, err := strconv.Unquote(src[i : j+1])
			if err != nil {
				return nil, fmt.Errorf("bad string literal %s: %v", src[i:j+1], err)
			}
			toks = append(toks, ctok{tString, s, i})
			i = j + 1
		case c == '`':
			j := strings.IndexByte(src[i+1:], '`')
			if j < 0 {
				return nil, fmt.Errorf("unterminated raw string at %d", i)
			}
			toks = append(toks, ctok{tString, src[i+1 : i+1+j], i})
			i = i + j + 2
		case c == '\'':
			// char literal -> int
			j := i + 1
			for j < len(src) && src[j] != '\'' {
				if src[j] == '\\' {
					j++
				}
				j++
			}
			r, _, _, err := strconv.UnquoteChar(src[i+1:j], '\'')
			if err != nil {
				return nil, fmt.Errorf("bad char literal at %d", i)
			}
			toks = append(toks, ctok{tInt, strconv.Itoa(int(r)), i})
			i = j + 1
		default:
			ops := []string{"<==>", "==>", "::", "==", "!=", "<=", ">=", "&&", "||", "<", ">", "+", "-", "*", "/", "%", "!", "(", ")", "[", "]", ".", ",", ":", "?"}
			matched := false
			for _, op := range ops {
				if strings.HasPrefix(src[i:], op) {
					toks = append(toks, ctok{tOp, op, i})
					i += len(op)
					matched = true
					break
				}
			}
			if !matched {
				return nil, fmt.Errorf("unexpected character %q at %d in %q", c, i, src)
			}
		}
	}
	toks = append(toks, ctok{tEOF, "", len(src)})
	return toks, nil
}

// ---- AST ----

type Expr interface{ String() string }

type (
	EIdent struct{ Name string }
	EInt   struct{ V string }
	EStr   struct{ V string }
	EUnary struct {
		Op string
		X  Expr
	}
	EBinary struct {
		Op   string
		X, Y Expr
	}
	ESel struct {
		X    Expr
		Name string
	}
	EIndex struct{ X, I Expr }
	ESlice struct{ X, Lo, Hi Expr }
	ECall  struct {
		Fn   string
		Args []Expr
	}
	EQuant struct {
		Forall bool
		Vars   []Binder
		Body   Expr
	}
)

type Binder struct {
	Name string
	Type string // textual type
}

func (e *EIdent) String() string { return e.Name }
func (e *EInt) String() string   { return e.V }
func (e *EStr) String() string   { return strconv.Quote(e.V) }
func (e *EUnary) String() string { return e.Op + e.X.String() }
func (e *EBinary) String() string {
	return "(" + e.X.String() + " " + e.Op + " " + e.Y.String() + ")"
}
func (e *ESel) String() string   { return e.X.String() + "." + e.Name }
func (e *EIndex) String() string { return e.X.String() + "[" + e.I.String() + "]" }
func (e *ESlice) String() string {
	lo, hi := "", ""
	if e.Lo != nil {
		lo = e.Lo.String()
	}
	if e.Hi != nil {
		hi = e.Hi.String()
	}
	return e.X.String() + "[" + lo + ":" + hi + "]"
}
func (e *ECall) String() string {
	var a []string
	for _, x := range e.Args {
		a = append(a, x.String())
	}
	return e.Fn + "(" + strings.Join(a, ", ") + ")"
}
func (e *EQuant) String() string {
	q := "exists"
	if e.Forall {
		q = "forall"
	}
	var b []string
	for _, v := range e.Vars {
		b = append(b, v.Name+" "+v.Type)
	}
	return "(" + q + " " + strings.Join(b, ", ") + " :: " + e.Body.String() + ")"
}

type exprParser struct {
	toks []ctok
	p    int
	src  string
}

func parseExpr(src string) (Expr, error) {
	toks, err := lexExpr(src)
	if err != nil {
		return nil, err
	}
	ps := &exprParser{toks: toks, src: src}
	e, err := ps.expr()
	if err != nil {
		return nil, err
	}
	if ps.peek().kind != tEOF {
		return nil, fmt.Errorf("trailing input at %d (%q) in %q", ps.peek().pos, ps.peek().s, src)
	}
	return e, nil
}

func (ps *exprParser) peek() ctok { return ps.toks[ps.p] }
func (ps *exprParser) next() ctok { t := ps.toks[ps.p]; ps.p++; return t }
func (ps *exprParser) isOp(s string) bool {
	t := ps.peek()
	return t.kind == tOp && t.s == s
}
func (ps *exprParser) isIdent(s string) bool {
	t := ps.peek()
	return t.kind == tIdent && t.s == s
}
func (ps *exprParser) expectOp(s string) error {
	if !ps.isOp(s) {
		return fmt.Errorf("expected %q at %d, got %q in %q", s, ps.peek().pos, ps.peek().s, ps.src)
	}
	ps.next()
	return nil
}

// parseType reads a textual type up to (not including) ',' or '::' at depth 0.
func (ps *exprParser) parseType() (string, error) {
	var sb strings.Builder
	depth := 0
	for {
		t := ps.peek()
		if t.kind == tEOF {
			break
		}
		if t.kind == tOp {
			if depth == 0 && (t.s == "," || t.s == "::") {
				break
			}
			if t.s == "[" {
				depth++
			}
			if t.s == "]" {
				depth--
			}
		}
		sb.WriteString(t.s)
		ps.next()
	}
	if sb.Len() == 0 {
		return "", fmt.Errorf("expected type at %d in %q", ps.peek().pos, ps.src)
	}
	return sb.String(), nil
}

func (ps *exprParser) expr() (Expr, error) {
	if ps.isIdent("forall") || ps.isIdent("exists") {
		fa := ps.next().s == "forall"
		var bs []Binder
		for {
			// one or more names followed by a type: "a, b string" or "a string"
			var names []string
			for {
				t := ps.next()
				if t.kind != tIdent {
					return nil, fmt.Errorf("expected binder name at %d in %q", t.pos, ps.src)
				}
				names = append(names, t.s)
				// lookahead: if next is ',' followed by ident followed by (',' or type start)...
				// Simplification: names separated by ',' then type; detect by: after ',', ident, then
				// next token is ',' or an ident/op that starts a type. We use the rule: a comma directly
				// after a name (before any type) continues the name list.
				if ps.isOp(",") {
					ps.next()
					continue
				}
				break
			}
			ty, err := ps.parseType()
			if err != nil {
				return nil, err
			}
			for _, n := range names {
				bs = append(bs, Binder{n, ty})
			}
			if ps.isOp(",") {
				ps.next()
				continue
			}
			break
		}
		if err := ps.expectOp("::"); err != nil {
			return nil, err
		}
		body, err := ps.expr()
		if err != nil {
			return nil, err
		}
		return &EQuant{Forall: fa, Vars: bs, Body: body}, nil
	}
	return ps.impl()
}

func (ps *exprParser) impl() (Expr, error) {
	x, err := ps.or()
	if err != nil {
		return nil, err
	}
	if ps.isOp("==>") {
		ps.next()
		y, err := ps.exprNoTop()
		if err != nil {
			return nil, err
		}
		return &EBinary{"==>", x, y}, nil
	}
	if ps.isOp("<==>") {
		ps.next()
		y, err := ps.orOrQuant()
		if err != nil {
			return nil, err
		}
		return &EBinary{"<==>", x, y}, nil
	}
	return x, nil
}

// right side of ==> may itself be a quantifier or implication
func (ps *exprParser) exprNoTop() (Expr, error) { return ps.expr() }

func (ps *exprParser) orOrQuant() (Expr, error) {
	if ps.isIdent("forall") || ps.isIdent("exists") {
		return ps.expr()
	}
	return ps.or()
}

func (ps *exprParser) or() (Expr, error) {
	x, err := ps.and()
	if err != nil {
		return nil, err
	}
	for ps.isOp("||") {
		ps.next()
		y, err := ps.andOrQuant()
		if err != nil {
			return nil, err
		}
		x = &EBinary{"||", x, y}
	}
	return x, nil
}

func (ps *exprParser) andOrQuant() (Expr, error) {
	if ps.isIdent("forall") || ps.isIdent("exists") {
		return ps.expr()
	}
	return ps.and()
}

func (ps *exprParser) and() (Expr, error) {
	x, err := ps.cmp()
	if err != nil {
		return nil, err
	}
	for ps.isOp("&&") {
		ps.next()
		var y Expr
		if ps.isIdent("forall") || ps.isIdent("exists") {
			y, err = ps.expr()
		} else {
			y, err = ps.cmp()
		}
		if err != nil {
			return nil, err
		}
		x = &EBinary{"&&", x, y}
	}
	return x, nil
}

func (ps *exprParser) cmp() (Expr, error) {
	x, err := ps.add()
	if err != nil {
		return nil, err
	}
	t := ps.peek()
	if t.kind == tOp {
		switch t.s {
		case "==", "!=", "<", "<=", ">", ">=":
			ps.next()
			y, err := ps.add()
			if err != nil {
				return nil, err
			}
			return &EBinary{t.s, x, y}, nil
		}
	}
	if t.kind == tIdent && t.s == "in" {
		ps.next()
		y, err := ps.add()
		if err != nil {
			return nil, err
		}
		return &EBinary{"in", x, y}, nil
	}
	return x, nil
}

func (ps *exprParser) add() (Expr, error) {
	x, err := ps.mul()
	if err != nil {
		return nil, err
	}
	for ps.isOp("+") || ps.isOp("-") {
		op := ps.next().s
		y, err := ps.mul()
		if err != nil {
			return nil, err
		}
		x = &EBinary{op, x, y}
	}
	return x, nil
}

func (ps *exprParser) mul() (Expr, error) {
	x, err := ps.unary()
	if err != nil {
		return nil, err
	}
	for ps.isOp("*") || ps.isOp("/") || ps.isOp("%") {
		op := ps.next().s
		y, err := ps.unary()
		if err != nil {
			return nil, err
		}
		x = &EBinary{op, x, y}
	}
	return x, nil
}

func (ps *exprParser) unary() (Expr, error) {
	if ps.isOp("!") || ps.isOp("-") {
		op := ps.next().s
		x, err := ps.unary()
		if err != nil {
			return nil, err
		}
		return &EUnary{op, x}, nil
	}
	return ps.postfix()
}

func (ps *exprParser) postfix() (Expr, error) {
	x, err := ps.primary()
	if err != nil {
		return nil, err
	}
	for {
		switch {
		case ps.isOp("."):
			ps.next()
			t := ps.next()
			if t.kind != tIdent {
				return nil, fmt.Errorf("expected field name at %d in %q", t.pos, ps.src)
			}
			// qualified call like strings.HasPrefix(...) is not supported; treat as selector
			x = &ESel{x, t.s}
		case ps.isOp("["):
			ps.next()
			var lo, hi Expr
			if !ps.isOp(":") {
				lo, err = ps.expr()
				if err != nil {
					return nil, err
				}
			}
			if ps.isOp(":") {
				ps.next()
				if !ps.isOp("]") {
					hi, err = ps.expr()
					if err != nil {
						return nil, err
					}
				}
				if err := ps.expectOp("]"); err != nil {
					return nil, err
				}
				x = &ESlice{x, lo, hi}
			} else {
				if err := ps.expectOp("]"); err != nil {
					return nil, err
				}
				x = &EIndex{x, lo}
			}
		case ps.isOp("("):
			id, ok := x.(*EIdent)
			if !ok {
				return nil, fmt.Errorf("call of non-identifier at %d in %q", ps.peek().pos, ps.src)
			}
			ps.next()
			var args []Expr
			for !ps.isOp(")") {
				a, err := ps.expr()
				if err != nil {
					return nil, err
				}
				args = append(args, a)
				if ps.isOp(",") {
					ps.next()
				} else {
					break
				}
			}
			if err := ps.expectOp(")"); err != nil {
				return nil, err
			}
			x = &ECall{id.Name, args}
		default:
			return x, nil
		}
	}
}

func (ps *exprParser) primary() (Expr, error) {
	t := ps.next()
	switch t.kind {
	case tIdent:
		return &EIdent{t.s}, nil
	case tInt:
		return &EInt{t.s}, nil
	case tString:
		return &EStr{t.s}, nil
	case tOp:
		if t.s == "(" {
			e, err := ps.expr()
			if err != nil {
				return nil, err
			}
			if err := ps.expectOp(")"); err != nil {
				return nil, err
			}
			return e, nil
		}
	}
	return nil, fmt.Errorf("unexpected token %q at %d in %q", t.s, t.pos, ps.src)
}
