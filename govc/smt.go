package main

// SMT layer: sorts, Go-type -> sort mapping, declaration registry.

import (
	"fmt"
	"go/types"
	"sort"
	"strings"
)

// Term is an SMT term with its sort and (optionally) the Go type it stands for.
type Term struct {
	S    string
	Sort string
	T    types.Type // may be nil for ghost-typed terms
	// metadata used by the executor
	KnownLen int    // for slices built from a fixed-size array literal; -1 unknown
	RegexLit string // for *regexp.Regexp values compiled from a literal
	HasRegex bool
}

func mkTerm(s, sort string, t types.Type) Term { return Term{S: s, Sort: sort, T: t, KnownLen: -1} }

const (
	sInt    = "Int"
	sBool   = "Bool"
	sString = "String"
)

func arrSort(idx, elem string) string { return "(Array " + idx + " " + elem + ")" }

func mangleSort(s string) string {
	r := strings.NewReplacer("(", "", ")", "", " ", "_")
	return r.Replace(s)
}

// Decls collects global (path independent) declarations in first-use order.
type Decls struct {
	order  []string
	keys   []string
	seen   map[string]bool
	slices map[string]bool
	interp map[string]string // key -> alternative text used in refutation mode
}

func newDecls() *Decls {
	return &Decls{seen: map[string]bool{}, slices: map[string]bool{}, interp: map[string]string{}}
}

func (d *Decls) add(key, text string) {
	if d.seen[key] {
		return
	}
	d.seen[key] = true
	d.order = append(d.order, text)
	d.keys = append(d.keys, key)
}

func (d *Decls) sliceSort(elem string) string {
	name := "Slice_" + mangleSort(elem)
	if !d.slices[name] {
		d.slices[name] = true
		d.add("sort:"+name, fmt.Sprintf("(declare-datatypes ((%s 0)) (((mk_%s (len_%s Int) (el_%s %s)))))", name, name, name, name, arrSort(sInt, elem)))
	}
	return name
}

func isSliceSort(s string) bool { return strings.HasPrefix(s, "Slice_") }

// sliceElemSort recovers the element sort of a slice sort via registry
var sliceElem = map[string]string{}

func (d *Decls) sliceOf(elem string) string {
	n := d.sliceSort(elem)
	sliceElem[n] = elem
	return n
}

func sliceLen(s Term) string   { return "(len_" + s.Sort + " " + s.S + ")" }
func sliceElems(s Term) string { return "(el_" + s.Sort + " " + s.S + ")" }
func mkSlice(sortName, l, el string) string {
	return "(mk_" + sortName + " " + l + " " + el + ")"
}

// ---- Go type -> sort ----

func isByteSlice(t types.Type) bool {
	if s, ok := t.Underlying().(*types.Slice); ok {
		if b, ok := s.Elem().Underlying().(*types.Basic); ok && (b.Kind() == types.Uint8) {
			return true
		}
	}
	return false
}

func namedString(t types.Type) string {
	if t == nil {
		return ""
	}
	t = types.Unalias(t)
	if n, ok := t.(*types.Named); ok {
		if n.Obj().Pkg() != nil {
			return n.Obj().Pkg().Path() + "." + n.Obj().Name()
		}
		return n.Obj().Name()
	}
	return ""
}

func (d *Decls) sortOf(t types.Type) string {
	switch namedString(t) {
	case "time.Time":
		return sInt
	}
	switch u := t.Underlying().(type) {
	case *types.Basic:
		switch {
		case u.Info()&types.IsBoolean != 0:
			return sBool
		case u.Info()&types.IsString != 0:
			return sString
		case u.Info()&types.IsInteger != 0:
			return sInt
		case u.Info()&types.IsFloat != 0:
			return "Real"
		case u.Kind() == types.UnsafePointer:
			return sInt
		case u.Kind() == types.UntypedNil:
			return sInt
		}
		return sInt
	case *types.Pointer, *types.Map, *types.Chan, *types.Signature, *types.Interface:
		return sInt
	case *types.Slice:
		if isByteSlice(t) {
			return sString
		}
		return d.sliceOf(d.sortOf(u.Elem()))
	case *types.Array:
		// array values are modelled as slices of fixed length
		if b, ok := u.Elem().Underlying().(*types.Basic); ok && b.Kind() == types.Uint8 {
			return sString
		}
		return d.sliceOf(d.sortOf(u.Elem()))
	case *types.Struct:
		if u.NumFields() == 0 {
			return sInt
		}
		return sInt // opaque struct value
	case *types.Tuple:
		return "TUPLE"
	}
	return sInt
}

func zeroOf(sort string) string {
	switch sort {
	case sInt:
		return "0"
	case sBool:
		return "false"
	case sString:
		return "\"\""
	case "Real":
		return "0.0"
	}
	if isSliceSort(sort) {
		el := sliceElem[sort]
		return mkSlice(sort, "0", "((as const "+arrSort(sInt, el)+") "+zeroOf(el)+")")
	}
	if strings.HasPrefix(sort, "(Array ") {
		idx, el := splitArraySort(sort)
		_ = idx
		return "((as const " + sort + ") " + zeroOf(el) + ")"
	}
	return "0"
}

// splitArraySort splits "(Array A B)" into A and B.
func splitArraySort(s string) (string, string) {
	inner := strings.TrimSuffix(strings.TrimPrefix(s, "(Array "), ")")
	depth := 0
	for i := 0; i < len(inner); i++ {
		switch inner[i] {
		case '(':
			depth++
		case ')':
			depth--
		case ' ':
			if depth == 0 {
				return inner[:i], inner[i+1:]
			}
		}
	}
	return inner, ""
}

// smtString renders a Go byte string as an SMT-LIB 2.6 string literal.
func smtString(s string) string {
	var sb strings.Builder
	sb.WriteByte('"')
	for i := 0; i < len(s); i++ {
		c := s[i]
		switch {
		case c == '"':
			sb.WriteString("\"\"")
		case c == '\\':
			sb.WriteString("\\u{5c}")
		case c >= 0x20 && c < 0x7f:
			sb.WriteByte(c)
		default:
			fmt.Fprintf(&sb, "\\u{%x}", c)
		}
	}
	sb.WriteByte('"')
	return sb.String()
}

func smtInt(n int64) string {
	if n < 0 {
		return fmt.Sprintf("(- %d)", -n)
	}
	return fmt.Sprintf("%d", n)
}

func and(xs ...string) string {
	var ys []string
	for _, x := range xs {
		if x == "true" || x == "" {
			continue
		}
		ys = append(ys, x)
	}
	switch len(ys) {
	case 0:
		return "true"
	case 1:
		return ys[0]
	}
	return "(and " + strings.Join(ys, " ") + ")"
}

func or(xs ...string) string {
	var ys []string
	for _, x := range xs {
		if x == "false" || x == "" {
			continue
		}
		ys = append(ys, x)
	}
	switch len(ys) {
	case 0:
		return "false"
	case 1:
		return ys[0]
	}
	return "(or " + strings.Join(ys, " ") + ")"
}

func not(x string) string {
	if x == "true" {
		return "false"
	}
	if x == "false" {
		return "true"
	}
	return "(not " + x + ")"
}

func implies(a, b string) string {
	if a == "true" {
		return b
	}
	return "(=> " + a + " " + b + ")"
}

func eq(a, b string) string { return "(= " + a + " " + b + ")" }

func sel(a, i string) string      { return "(select " + a + " " + i + ")" }
func store(a, i, v string) string { return "(store " + a + " " + i + " " + v + ")" }

func sortedKeys(m map[string]string) []string {
	var ks []string
	for k := range m {
		ks = append(ks, k)
	}
	sort.Strings(ks)
	return ks
}
