package main

// Concrete (three-valued) evaluation of contract expressions over values observed on the real code.
// Used by the replay: the real function is run on the inputs of a solver model, its inputs/outputs are dumped by
// reflection, and the clauses of its contract are evaluated on the dump. "Unknown" (an expression that mentions ghost
// state, an uninterpreted spec function without Go interpretation, an unbounded quantifier ...) never confirms anything.

import (
	"crypto/sha1"
	"encoding/hex"
	"fmt"
	"go/constant"
	"go/types"
	"path/filepath"
	"regexp"
	"sort"
	"strconv"
	"strings"
	"sync"
)

// concrete values: int64, string, bool, cseq, *cptr, *cmap, *cstruct, cnil, copaque
type cseq []interface{}
type cptr struct{ id int }
type cmapv struct {
	id      int
	isNil   bool
	entries [][2]interface{}
}
type cstruct struct {
	fields map[string]interface{}
	emb    map[string]bool
}
type cnilT struct{}
type copaque struct{ isNil bool }
type cset struct{ m *cmapv } // dom(m)

// cmustfail: the documented behaviour is to stop the program (Fail); no returned value equals it
type cmustfail struct{ why string }

type cunknown struct{ why string }

func unk(format string, a ...interface{}) { panic(cunknown{fmt.Sprintf(format, a...)}) }

type tri int

const (
	triF tri = iota
	triT
	triU
)

type cenv struct {
	v      *Verifier
	pkg    *types.Package
	vars   map[string]interface{} // post-state bindings
	old    map[string]interface{} // pre-state bindings (nil: same as vars)
	objs   map[int]*cstruct       // post-state objects by id
	oldObj map[int]*cstruct
	inOld  bool
	strs   []string // candidate strings for string quantifiers
	preIDs int      // object ids up to this number were seen before the call
	files  map[string]bool // non-nil: the complete set of files that exist during the replay (file system reads become evaluable)
	why    string   // last reason for unknown
}

func (c *cenv) objects() map[int]*cstruct {
	if c.inOld && c.oldObj != nil {
		return c.oldObj
	}
	return c.objs
}

// evalTri evaluates a boolean expression to true / false / unknown.
func (c *cenv) evalTri(e Expr) (r tri) {
	defer func() {
		if p := recover(); p != nil {
			if u, ok := p.(cunknown); ok {
				c.why = u.why
				r = triU
				return
			}
			panic(p)
		}
	}()
	switch x := e.(type) {
	case *EUnary:
		if x.Op == "!" {
			switch c.evalTri(x.X) {
			case triT:
				return triF
			case triF:
				return triT
			}
			return triU
		}
	case *EBinary:
		switch x.Op {
		case "&&":
			a, b := c.evalTri(x.X), c.evalTri(x.Y)
			if a == triF || b == triF {
				return triF
			}
			if a == triT && b == triT {
				return triT
			}
			return triU
		case "||":
			a, b := c.evalTri(x.X), c.evalTri(x.Y)
			if a == triT || b == triT {
				return triT
			}
			if a == triF && b == triF {
				return triF
			}
			return triU
		case "==>":
			a := c.evalTri(x.X)
			if a == triF {
				return triT
			}
			b := c.evalTri(x.Y)
			if b == triT {
				return triT
			}
			if a == triT && b == triF {
				return triF
			}
			return triU
		case "<==>":
			a, b := c.evalTri(x.X), c.evalTri(x.Y)
			if a == triU || b == triU {
				return triU
			}
			if a == b {
				return triT
			}
			return triF
		}
	case *EQuant:
		return c.evalQuant(x)
	case *ECall:
		if x.Fn == "old" {
			n := *c
			n.inOld = true
			r := n.evalTri(x.Args[0])
			c.why = n.why
			return r
		}
		if x.Fn == "ite" {
			switch c.evalTri(x.Args[0]) {
			case triT:
				return c.evalTri(x.Args[1])
			case triF:
				return c.evalTri(x.Args[2])
			}
			return triU
		}
		if gf, ok := c.v.cs.GhostFuncs[x.Fn]; ok && gf.Def != nil {
			n := c.bindDefine(gf, x)
			r := n.evalTri(gf.Def)
			c.why = n.why
			return r
		}
	}
	v := c.eval(e)
	b, ok := v.(bool)
	if !ok {
		unk("not a boolean: %s", e.String())
	}
	if b {
		return triT
	}
	return triF
}

func (c *cenv) bindDefine(gf *GhostFunc, x *ECall) *cenv {
	n := *c
	n.vars = map[string]interface{}{}
	n.old = nil
	for i, p := range gf.Params {
		n.vars[p.Name] = c.eval(x.Args[i])
	}
	// defines evaluate in the caller's heap state; parameters are values
	return &n
}

// quantifiers: exact over bounded integer ranges and over map domains; otherwise witnesses only
func (c *cenv) evalQuant(q *EQuant) tri {
	return c.quantVars(q, 0, q.Body)
}

func (c *cenv) quantVars(q *EQuant, i int, body Expr) tri {
	if i == len(q.Vars) {
		return c.evalTri(body)
	}
	b := q.Vars[i]
	dom, exact := c.domainFor(b, body, q.Forall, q.Vars)
	sawU := !exact
	for _, val := range dom {
		n := *c
		n.vars = make(map[string]interface{}, len(c.vars)+1)
		for k, v := range c.vars {
			n.vars[k] = v
		}
		n.vars[b.Name] = val
		if c.old != nil {
			n.old = make(map[string]interface{}, len(c.old)+1)
			for k, v := range c.old {
				n.old[k] = v
			}
			n.old[b.Name] = val
		}
		r := n.quantVars(q, i+1, body)
		if q.Forall && r == triF {
			return triF
		}
		if !q.Forall && r == triT {
			return triT
		}
		if r == triU {
			sawU = true
			c.why = n.why
		}
	}
	if sawU {
		if c.why == "" {
			c.why = "quantifier over an unbounded domain: " + b.Name + " " + b.Type
		}
		return triU
	}
	if q.Forall {
		return triT
	}
	return triF
}

// domainFor finds the values to try for a bound variable. exact = the listed values cover every value for which the
// guard of the body can hold.
func (c *cenv) domainFor(b Binder, body Expr, forall bool, all []Binder) ([]interface{}, bool) {
	var guards []Expr
	if forall {
		if im, ok := body.(*EBinary); ok && im.Op == "==>" {
			guards = c.guardConjuncts(im.X, 0)
		}
	} else {
		guards = c.guardConjuncts(body, 0)
	}
	switch b.Type {
	case "int":
		lo, okLo, hi, okHi := c.intBounds(b.Name, guards)
		// bounds through another quantified variable: i < j && j < N gives i < N; 0 <= i && i < j gives 0 <= j
		for _, g := range guards {
			bin, ok := g.(*EBinary)
			if !ok || (bin.Op != "<" && bin.Op != "<=") {
				continue
			}
			xi, xok := bin.X.(*EIdent)
			yi, yok := bin.Y.(*EIdent)
			if !xok || !yok {
				continue
			}
			isQ := func(n string) bool {
				for _, a := range all {
					if a.Name == n && a.Type == "int" && n != b.Name {
						return true
					}
				}
				return false
			}
			if xi.Name == b.Name && isQ(yi.Name) && !okHi {
				if _, _, h, ok := c.intBounds(yi.Name, guards); ok {
					hi, okHi = h, true
				}
			}
			if yi.Name == b.Name && isQ(xi.Name) && !okLo {
				if l, ok, _, _ := c.intBounds(xi.Name, guards); ok {
					lo, okLo = l, true
				}
			}
		}
		if okLo && okHi && hi-lo <= 4096 {
			var out []interface{}
			for k := lo; k < hi; k++ {
				out = append(out, k)
			}
			return out, true
		}
		var out []interface{}
		for k := int64(-1); k <= 8; k++ {
			out = append(out, k)
		}
		return out, false
	case "string":
		// guard "k in m" / "d[k]": exact over the keys of the map
		for _, g := range guards {
			var me Expr
			if bin, ok := g.(*EBinary); ok && bin.Op == "in" {
				if id, ok := bin.X.(*EIdent); ok && id.Name == b.Name && !mentions(bin.Y, b.Name) {
					me = bin.Y
				}
			}
			if ix, ok := g.(*EIndex); ok {
				if id, ok := ix.I.(*EIdent); ok && id.Name == b.Name && !mentions(ix.X, b.Name) {
					me = ix.X
				}
			}
			if me == nil {
				continue
			}
			var keys []interface{}
			ok := func() (ok bool) {
				defer func() {
					if p := recover(); p != nil {
						if _, isU := p.(cunknown); isU {
							ok = false
							return
						}
						panic(p)
					}
				}()
				switch m := c.eval(me).(type) {
				case *cmapv:
					for _, e := range m.entries {
						keys = append(keys, e[0])
					}
					return true
				case cset:
					for _, e := range m.m.entries {
						keys = append(keys, e[0])
					}
					return true
				}
				return false
			}()
			if ok {
				return keys, true
			}
		}
		var out []interface{}
		for _, s := range c.strs {
			out = append(out, s)
		}
		return out, false
	}
	return nil, false
}

// intBounds: evaluable bounds lo <= name < hi among the guards
func (c *cenv) intBounds(name string, guards []Expr) (lo int64, okLo bool, hi int64, okHi bool) {
	for _, g := range guards {
		bin, ok := g.(*EBinary)
		if !ok {
			continue
		}
		tryEval := func(e Expr) (v int64, ok bool) {
			defer func() {
				if p := recover(); p != nil {
					if _, isU := p.(cunknown); isU {
						ok = false
						return
					}
					panic(p)
				}
			}()
			r, isInt := c.eval(e).(int64)
			return r, isInt
		}
		isVar := func(e Expr) bool { id, ok := e.(*EIdent); return ok && id.Name == name }
		switch {
		case isVar(bin.Y) && (bin.Op == "<=" || bin.Op == "<"): // lo <= i
			if v, ok := tryEval(bin.X); ok {
				if bin.Op == "<" {
					v++
				}
				if !okLo || v > lo {
					lo, okLo = v, true
				}
			}
		case isVar(bin.X) && (bin.Op == ">=" || bin.Op == ">"):
			if v, ok := tryEval(bin.Y); ok {
				if bin.Op == ">" {
					v++
				}
				if !okLo || v > lo {
					lo, okLo = v, true
				}
			}
		case isVar(bin.X) && (bin.Op == "<" || bin.Op == "<="): // i < hi
			if v, ok := tryEval(bin.Y); ok {
				if bin.Op == "<=" {
					v++
				}
				if !okHi || v < hi {
					hi, okHi = v, true
				}
			}
		case isVar(bin.Y) && (bin.Op == ">" || bin.Op == ">="):
			if v, ok := tryEval(bin.X); ok {
				if bin.Op == ">=" {
					v++
				}
				if !okHi || v < hi {
					hi, okHi = v, true
				}
			}
		}
	}
	return
}

func conjuncts(e Expr) []Expr {
	if b, ok := e.(*EBinary); ok && b.Op == "&&" {
		return append(conjuncts(b.X), conjuncts(b.Y)...)
	}
	return []Expr{e}
}

// guardConjuncts: conjuncts with applications of `define`d predicates unfolded (so that "k in m" inside a define is
// seen as a bound on k)
func (c *cenv) guardConjuncts(e Expr, depth int) []Expr {
	var out []Expr
	for _, g := range conjuncts(e) {
		if call, ok := g.(*ECall); ok && depth < 3 {
			if gf, ok := c.v.cs.GhostFuncs[call.Fn]; ok && gf.Def != nil && len(gf.Params) == len(call.Args) {
				sub := map[string]Expr{}
				for i, p := range gf.Params {
					sub[p.Name] = call.Args[i]
				}
				out = append(out, c.guardConjuncts(substExpr(gf.Def, sub), depth+1)...)
				continue
			}
		}
		out = append(out, g)
	}
	return out
}

func substExpr(e Expr, sub map[string]Expr) Expr {
	switch x := e.(type) {
	case *EIdent:
		if r, ok := sub[x.Name]; ok {
			return r
		}
		return x
	case *EUnary:
		return &EUnary{Op: x.Op, X: substExpr(x.X, sub)}
	case *EBinary:
		return &EBinary{Op: x.Op, X: substExpr(x.X, sub), Y: substExpr(x.Y, sub)}
	case *ESel:
		return &ESel{X: substExpr(x.X, sub), Name: x.Name}
	case *EIndex:
		return &EIndex{X: substExpr(x.X, sub), I: substExpr(x.I, sub)}
	case *ESlice:
		n := &ESlice{X: substExpr(x.X, sub)}
		if x.Lo != nil {
			n.Lo = substExpr(x.Lo, sub)
		}
		if x.Hi != nil {
			n.Hi = substExpr(x.Hi, sub)
		}
		return n
	case *ECall:
		n := &ECall{Fn: x.Fn}
		for _, a := range x.Args {
			n.Args = append(n.Args, substExpr(a, sub))
		}
		return n
	case *EQuant:
		inner := map[string]Expr{}
		for k, v := range sub {
			inner[k] = v
		}
		for _, b := range x.Vars {
			delete(inner, b.Name)
		}
		return &EQuant{Forall: x.Forall, Vars: x.Vars, Body: substExpr(x.Body, inner)}
	}
	return e
}

func mentions(e Expr, name string) bool {
	switch x := e.(type) {
	case *EIdent:
		return x.Name == name
	case *EUnary:
		return mentions(x.X, name)
	case *EBinary:
		return mentions(x.X, name) || mentions(x.Y, name)
	case *ESel:
		return mentions(x.X, name)
	case *EIndex:
		return mentions(x.X, name) || mentions(x.I, name)
	case *ESlice:
		return mentions(x.X, name) || (x.Lo != nil && mentions(x.Lo, name)) || (x.Hi != nil && mentions(x.Hi, name))
	case *ECall:
		for _, a := range x.Args {
			if mentions(a, name) {
				return true
			}
		}
	case *EQuant:
		return mentions(x.Body, name)
	}
	return false
}

func (c *cenv) lookup(name string) (interface{}, bool) {
	if c.inOld && c.old != nil {
		if v, ok := c.old[name]; ok {
			return v, true
		}
	}
	v, ok := c.vars[name]
	return v, ok
}

func (c *cenv) eval(e Expr) interface{} {
	switch x := e.(type) {
	case *EInt:
		n, err := strconv.ParseInt(x.V, 10, 64)
		if err != nil {
			unk("integer literal %s", x.V)
		}
		return n
	case *EStr:
		return x.V
	case *EIdent:
		switch x.Name {
		case "true":
			return true
		case "false":
			return false
		case "nil":
			return cnilT{}
		}
		if v, ok := c.lookup(x.Name); ok {
			return v
		}
		if c.pkg != nil {
			if obj := c.pkg.Scope().Lookup(x.Name); obj != nil {
				if k, ok := obj.(*types.Const); ok {
					switch k.Val().Kind() {
					case constant.String:
						return constant.StringVal(k.Val())
					case constant.Int:
						n, _ := constant.Int64Val(k.Val())
						return n
					case constant.Bool:
						return constant.BoolVal(k.Val())
					}
				}
			}
		}
		unk("identifier %s has no concrete value", x.Name)
	case *EUnary:
		if x.Op == "-" {
			n, ok := c.eval(x.X).(int64)
			if !ok {
				unk("negation of non-integer")
			}
			return -n
		}
		return c.triBool(e)
	case *EBinary:
		switch x.Op {
		case "&&", "||", "==>", "<==>":
			return c.triBool(e)
		case "==", "!=":
			a, b := c.eval(x.X), c.eval(x.Y)
			eq := c.equal(a, b)
			if x.Op == "!=" {
				return !eq
			}
			return eq
		case "<", "<=", ">", ">=":
			a, b := c.eval(x.X), c.eval(x.Y)
			switch av := a.(type) {
			case int64:
				bv, ok := b.(int64)
				if !ok {
					unk("comparison of int with non-int")
				}
				switch x.Op {
				case "<":
					return av < bv
				case "<=":
					return av <= bv
				case ">":
					return av > bv
				}
				return av >= bv
			case string:
				bv, ok := b.(string)
				if !ok {
					unk("comparison of string with non-string")
				}
				switch x.Op {
				case "<":
					return av < bv
				case "<=":
					return av <= bv
				case ">":
					return av > bv
				}
				return av >= bv
			}
			unk("comparison of %T", a)
		case "+":
			a, b := c.eval(x.X), c.eval(x.Y)
			switch av := a.(type) {
			case int64:
				if bv, ok := b.(int64); ok {
					return av + bv
				}
			case string:
				if bv, ok := b.(string); ok {
					return av + bv
				}
			}
			unk("+ on %T and %T", a, b)
		case "-", "*", "/", "%":
			a, ok1 := c.eval(x.X).(int64)
			b, ok2 := c.eval(x.Y).(int64)
			if !ok1 || !ok2 {
				unk("arithmetic on non-integers")
			}
			switch x.Op {
			case "-":
				return a - b
			case "*":
				return a * b
			}
			if b == 0 {
				unk("division by zero")
			}
			if x.Op == "/" {
				return a / b
			}
			return a % b
		case "in":
			k := c.eval(x.X)
			switch m := c.eval(x.Y).(type) {
			case *cmapv:
				for _, en := range m.entries {
					if c.equal(en[0], k) {
						return true
					}
				}
				return false
			case cset:
				for _, en := range m.m.entries {
					if c.equal(en[0], k) {
						return true
					}
				}
				return false
			}
			unk("'in' on a non-map")
		}
		unk("operator %s", x.Op)
	case *ESel:
		return c.field(c.eval(x.X), x.Name)
	case *EIndex:
		base, idx := c.eval(x.X), c.eval(x.I)
		switch b := base.(type) {
		case cseq:
			i, ok := idx.(int64)
			if !ok || i < 0 || int(i) >= len(b) {
				unk("index out of range in %s", e.String())
			}
			return b[i]
		case string:
			unk("byte indexing of strings")
		case *cmapv:
			for _, en := range b.entries {
				if c.equal(en[0], idx) {
					return en[1]
				}
			}
			// Go semantics: the zero value of the element type
			if len(b.entries) > 0 {
				switch b.entries[0][1].(type) {
				case string:
					return ""
				case int64:
					return int64(0)
				case bool:
					return false
				case *cptr, cnilT:
					return cnilT{}
				}
			}
			unk("missing key in a map of unknown element type")
		case cset:
			for _, en := range b.m.entries {
				if c.equal(en[0], idx) {
					return true
				}
			}
			return false
		}
		unk("indexing %T", base)
	case *ESlice:
		base := c.eval(x.X)
		lo, hi := int64(0), int64(-1)
		if x.Lo != nil {
			lo, _ = c.eval(x.Lo).(int64)
		}
		switch b := base.(type) {
		case cseq:
			hi = int64(len(b))
			if x.Hi != nil {
				hi, _ = c.eval(x.Hi).(int64)
			}
			if lo < 0 || hi > int64(len(b)) || lo > hi {
				unk("slice bounds")
			}
			return b[lo:hi]
		case string:
			hi = int64(len(b))
			if x.Hi != nil {
				hi, _ = c.eval(x.Hi).(int64)
			}
			if lo < 0 || hi > int64(len(b)) || lo > hi {
				unk("slice bounds")
			}
			return b[lo:hi]
		}
		unk("slicing %T", base)
	case *ECall:
		return c.call(x)
	case *EQuant:
		return c.triBool(e)
	}
	unk("expression %s", e.String())
	return nil
}

func (c *cenv) triBool(e Expr) interface{} {
	switch c.evalTri(e) {
	case triT:
		return true
	case triF:
		return false
	}
	panic(cunknown{c.why})
}

func (c *cenv) equal(a, b interface{}) bool {
	if _, ok := a.(cmustfail); ok {
		return false
	}
	if _, ok := b.(cmustfail); ok {
		return false
	}
	isNil := func(x interface{}) (bool, bool) {
		switch v := x.(type) {
		case cnilT:
			return true, true
		case *cptr:
			return false, true
		case *cmapv:
			return v.isNil, true
		case copaque:
			return v.isNil, true
		case cseq:
			return false, false
		}
		return false, false
	}
	switch av := a.(type) {
	case int64:
		if bv, ok := b.(int64); ok {
			return av == bv
		}
	case string:
		if bv, ok := b.(string); ok {
			return av == bv
		}
	case bool:
		if bv, ok := b.(bool); ok {
			return av == bv
		}
	case *cptr:
		if bv, ok := b.(*cptr); ok {
			return av.id == bv.id
		}
	case *cmapv:
		if bv, ok := b.(*cmapv); ok {
			if av.isNil || bv.isNil {
				return av.isNil && bv.isNil
			}
			return av.id == bv.id
		}
	case cseq:
		if bv, ok := b.(cseq); ok {
			if len(av) != len(bv) {
				return false
			}
			for i := range av {
				if !c.equal(av[i], bv[i]) {
					return false
				}
			}
			return true
		}
	}
	an, aok := isNil(a)
	bn, bok := isNil(b)
	if aok && bok {
		if _, isO := a.(copaque); isO && !an && !bn {
			unk("identity of opaque values")
		}
		if _, isO := b.(copaque); isO && !an && !bn {
			unk("identity of opaque values")
		}
		return an && bn
	}
	unk("equality of %T and %T", a, b)
	return false
}

func (c *cenv) field(x interface{}, name string) interface{} {
	var st *cstruct
	switch v := x.(type) {
	case *cptr:
		st = c.objects()[v.id]
		if st == nil {
			unk("object %d was not dumped", v.id)
		}
	case *cstruct:
		st = v
	case cnilT:
		unk("field %s of nil", name)
	default:
		unk("field %s of %T", name, x)
	}
	if f, ok := st.fields[name]; ok {
		return f
	}
	// promoted fields through embedded structs / embedded pointers
	var names []string
	for n := range st.emb {
		names = append(names, n)
	}
	sort.Strings(names)
	for _, n := range names {
		inner := st.fields[n]
		var ist *cstruct
		switch iv := inner.(type) {
		case *cstruct:
			ist = iv
		case *cptr:
			ist = c.objects()[iv.id]
		}
		if ist == nil {
			continue
		}
		if r, ok := c.tryField(ist, name); ok {
			return r
		}
	}
	unk("no field %s", name)
	return nil
}

func (c *cenv) tryField(st *cstruct, name string) (r interface{}, ok bool) {
	defer func() {
		if p := recover(); p != nil {
			if _, isU := p.(cunknown); isU {
				ok = false
				return
			}
			panic(p)
		}
	}()
	return c.field(st, name), true
}

func smtSubstr(s string, i, n int64) string {
	if i < 0 || i >= int64(len(s)) || n <= 0 {
		return ""
	}
	if i+n > int64(len(s)) {
		n = int64(len(s)) - i
	}
	return s[i : i+n]
}

var reCache sync.Map

func cachedRegexp(pat string) (*regexp.Regexp, error) {
	if r, ok := reCache.Load(pat); ok {
		if re, ok := r.(*regexp.Regexp); ok {
			return re, nil
		}
		return nil, fmt.Errorf("invalid regexp")
	}
	re, err := regexp.Compile(pat)
	if err != nil {
		reCache.Store(pat, err)
		return nil, err
	}
	reCache.Store(pat, re)
	return re, nil
}

func goFullRegex(pat string) (*regexp.Regexp, error) {
	if r, ok := reCache.Load("^full:" + pat); ok {
		if re, ok := r.(*regexp.Regexp); ok {
			return re, nil
		}
	}
	re, err := goFullRegexCompile(pat)
	if err == nil {
		reCache.Store("^full:"+pat, re)
	}
	return re, err
}

func goFullRegexCompile(pat string) (*regexp.Regexp, error) {
	p := strings.TrimPrefix(pat, "^")
	if strings.HasSuffix(p, "$") && !strings.HasSuffix(p, "\\$") {
		p = p[:len(p)-1]
	}
	return regexp.Compile("^(?:" + p + ")$")
}

func (c *cenv) call(x *ECall) interface{} {
	str := func(i int) string {
		s, ok := c.eval(x.Args[i]).(string)
		if !ok {
			unk("argument %d of %s is not a string", i, x.Fn)
		}
		return s
	}
	num := func(i int) int64 {
		n, ok := c.eval(x.Args[i]).(int64)
		if !ok {
			unk("argument %d of %s is not an integer", i, x.Fn)
		}
		return n
	}
	seqOfStr := func(i int) []string {
		s, ok := c.eval(x.Args[i]).(cseq)
		if !ok {
			unk("argument %d of %s is not a sequence", i, x.Fn)
		}
		var out []string
		for _, e := range s {
			es, ok := e.(string)
			if !ok {
				unk("sequence of non-strings")
			}
			out = append(out, es)
		}
		return out
	}
	switch x.Fn {
	case "old":
		n := *c
		n.inOld = true
		return n.eval(x.Args[0])
	case "len":
		switch v := c.eval(x.Args[0]).(type) {
		case string:
			return int64(len(v))
		case cseq:
			return int64(len(v))
		case *cmapv:
			return int64(len(v.entries))
		}
		unk("len of unsupported value")
	case "ite":
		switch c.evalTri(x.Args[0]) {
		case triT:
			return c.eval(x.Args[1])
		case triF:
			return c.eval(x.Args[2])
		}
		panic(cunknown{c.why})
	case "hasPrefix":
		return strings.HasPrefix(str(0), str(1))
	case "hasSuffix":
		return strings.HasSuffix(str(0), str(1))
	case "contains":
		return strings.Contains(str(0), str(1))
	case "indexOf":
		return int64(strings.Index(str(0), str(1)))
	case "substr":
		return smtSubstr(str(0), num(1), num(2))
	case "replaceFirst":
		return strings.Replace(str(0), str(1), str(2), 1)
	case "charAt":
		return smtSubstr(str(0), num(1), 1)
	case "matches", "fullMatch":
		lit, ok := x.Args[1].(*EStr)
		if !ok {
			unk("%s needs a literal pattern", x.Fn)
		}
		var re *regexp.Regexp
		var err error
		if x.Fn == "matches" {
			re, err = cachedRegexp(lit.V)
		} else {
			re, err = goFullRegex(lit.V)
		}
		if err != nil {
			unk("regexp %q: %v", lit.V, err)
		}
		return re.MatchString(str(0))
	case "statOK", "statNotExist":
		if c.files == nil {
			unk("the file system of the run is not known")
		}
		p := str(1)
		if x.Fn == "statOK" {
			return c.files[p]
		}
		return !c.files[p]
	case "ptr":
		return c.eval(x.Args[1])
	case "fresh":
		// allocated during the call: not among the objects seen in the dump taken before the call
		switch v := c.eval(x.Args[0]).(type) {
		case *cptr:
			return v.id > c.preIDs
		case *cmapv:
			return !v.isNil && v.id > c.preIDs
		}
		unk("fresh of a non-reference")
	case "dom":
		m, ok := c.eval(x.Args[0]).(*cmapv)
		if !ok {
			unk("dom of a non-map")
		}
		return cset{m}
	case "vals":
		m, ok := c.eval(x.Args[0]).(*cmapv)
		if !ok {
			unk("vals of a non-map")
		}
		return m
	// Go interpretations of the uninterpreted specification functions (the same meaning the axioms give them)
	case "replaceAll":
		return strings.ReplaceAll(str(0), str(1), str(2))
	case "reReplaceAll":
		re, err := cachedRegexp(str(0))
		if err != nil {
			unk("regexp: %v", err)
		}
		return re.ReplaceAllString(str(1), str(2))
	case "toLower":
		return strings.ToLower(str(0))
	case "trimLeftSet":
		return strings.TrimLeft(str(0), str(1))
	case "trimRightSet":
		return strings.TrimRight(str(0), str(1))
	case "sha1Of":
		h := sha1.Sum([]byte(str(0)))
		return string(h[:])
	case "hexOf":
		return hex.EncodeToString([]byte(str(0)))
	case "baseOf":
		return filepath.Base(str(0))
	case "dirOf":
		return filepath.Dir(str(0))
	case "pathJoin2":
		return filepath.Join(str(0), str(1))
	case "afterLastSlash":
		s := str(0)
		return s[strings.LastIndex(s, "/")+1:]
	case "beforeLastSlash":
		s := str(0)
		if i := strings.LastIndex(s, "/"); i >= 0 {
			return s[:i]
		}
		return s
	case "isSubstMod":
		re, _ := goFullRegex("s/[^/%\n]+/[^/%\n]*/")
		return re.MatchString(str(0))
	case "isTrimMod":
		s := str(0)
		re, _ := goFullRegex("%[^\n]*")
		sub := regexp.MustCompile("s\\/([^\\/]+)\\/([^\\/]*)\\/")
		return re.MatchString(s) && !sub.MatchString(s)
	case "substA", "substB":
		s := str(0)
		re, _ := goFullRegex("s/([^/%\n]+)/([^/%\n]*)/")
		m := re.FindStringSubmatch(s)
		if m == nil {
			unk("%s of a non-substitution modifier", x.Fn)
		}
		if x.Fn == "substA" {
			return m[1]
		}
		return m[2]
	case "splitOf":
		var out cseq
		for _, p := range strings.Split(str(0), str(1)) {
			out = append(out, p)
		}
		return out
	case "joinStr":
		return strings.Join(seqOfStr(0), str(1))
	case "reGroup":
		re, err := cachedRegexp(str(0))
		if err != nil {
			unk("regexp: %v", err)
		}
		m := re.FindStringSubmatch(str(1))
		i := num(2)
		if m == nil || i < 0 || int(i) >= len(m) {
			unk("reGroup: no such group")
		}
		return m[i]
	case "reFindAll":
		re, err := regexp.Compile(str(0))
		if err != nil {
			unk("regexp: %v", err)
		}
		var out cseq
		for _, m := range re.FindAllStringSubmatch(str(1), -1) {
			var g cseq
			for _, s := range m {
				g = append(g, s)
			}
			out = append(out, g)
		}
		return out
	case "validRegex":
		_, err := regexp.Compile(str(0))
		return err == nil
	case "ident":
		return c.eval(x.Args[0])
	case "singleton":
		return cseq{c.eval(x.Args[0])}
	case "placeholderText":
		// the placeholder {TYPE:NAME|MOD|...} (used to build a command for a replay)
		s := "{" + str(0) + ":" + str(1)
		for _, m := range seqOfStr(2) {
			s += "|" + m
		}
		s += "}"
		// twice, so that "every occurrence is replaced" is exercised too
		return s + " " + s
	case "expandedCmd":
		return c.expandedCmd(x)
	case "applyMods":
		gf, ok := c.v.cs.GhostFuncs["modstep"]
		if !ok || gf.Def == nil {
			unk("applyMods needs the define modstep")
		}
		cur := str(0)
		for _, m := range seqOfStr(1) {
			n := *c
			n.vars = map[string]interface{}{gf.Params[0].Name: cur, gf.Params[1].Name: m}
			n.old = nil
			r, ok := n.eval(gf.Def).(string)
			if !ok {
				unk("modstep did not yield a string")
			}
			cur = r
		}
		return cur
	}
	if gf, ok := c.v.cs.GhostFuncs[x.Fn]; ok && gf.Def != nil {
		if len(gf.Params) != len(x.Args) {
			unk("wrong number of arguments to %s", x.Fn)
		}
		n := c.bindDefine(gf, x)
		return n.eval(gf.Def)
	}
	unk("%s has no concrete interpretation", x.Fn)
	return nil
}

func triString(t tri) string {
	switch t {
	case triT:
		return "true"
	case triF:
		return "false"
	}
	return "unknown"
}

// callVals applies a specification function to concrete values.
func (c *cenv) callVals(fn string, args ...interface{}) interface{} {
	n := *c
	n.vars = map[string]interface{}{}
	n.old = nil
	call := &ECall{Fn: fn}
	for i, a := range args {
		nm := fmt.Sprintf("$v%d", i)
		n.vars[nm] = a
		call.Args = append(call.Args, &EIdent{Name: nm})
	}
	return n.eval(call)
}

// expandedCmd(cmd, portInfos, inIPs, subStreamIPs, outIPs, params, tags, prepend): the documented meaning of placeholder
// expansion (docs/writing_workflows.md and the statements of C13/C15/C17/C18), written independently of task.go and used
// only as an oracle when a model is replayed on the real formatCommand. Undefined cases (a replacement that itself
// contains braces, an undocumented modifier, missing values, which make the real code exit) yield "unknown".
func (c *cenv) expandedCmd(x *ECall) interface{} {
	if len(x.Args) != 8 {
		unk("expandedCmd needs 8 arguments")
	}
	cmd, ok := c.eval(x.Args[0]).(string)
	if !ok {
		unk("cmd is not a string")
	}
	portInfos, inIPs, subs, outIPs, params, tags := c.eval(x.Args[1]), c.eval(x.Args[2]), c.eval(x.Args[3]), c.eval(x.Args[4]), c.eval(x.Args[5]), c.eval(x.Args[6])
	prepend, _ := c.eval(x.Args[7]).(string)
	lookup := func(m interface{}, k string) (interface{}, bool) {
		mv, ok := m.(*cmapv)
		if !ok {
			unk("not a map")
		}
		for _, e := range mv.entries {
			if ks, ok := e[0].(string); ok && ks == k {
				return e[1], true
			}
		}
		return nil, false
	}
	strField := func(o interface{}, f string) string {
		s, ok := c.field(o, f).(string)
		if !ok {
			unk("field %s is not a string", f)
		}
		return s
	}
	boolField := func(o interface{}, f string) bool {
		b, ok := c.field(o, f).(bool)
		if !ok {
			unk("field %s is not a bool", f)
		}
		return b
	}
	prependOf := func(p string) string {
		if strings.HasPrefix(p, "/") {
			return p
		}
		return "../" + p
	}
	re := regexp.MustCompile("{(o|os|i|is|p|t):([^{}]+)}")
	type rep struct{ match, with string }
	var reps []rep
	for _, m := range re.FindAllStringSubmatch(cmd, -1) {
		parts := strings.Split(m[2], "|")
		name, mods := parts[0], parts[1:]
		modSeq := cseq{}
		hasBase := false
		for _, md := range mods {
			if b, ok := c.callVals("docMod", md).(bool); !ok || !b {
				unk("undocumented modifier %q", md)
			}
			if md == "basename" {
				hasBase = true
			}
			modSeq = append(modSeq, md)
		}
		apply := func(p string) string {
			if strings.Contains(p, "\n") {
				unk("newline in a path")
			}
			r, ok := c.callVals("applyMods", p, modSeq).(string)
			if !ok {
				unk("applyMods")
			}
			return r
		}
		pi, ok := lookup(portInfos, name)
		if !ok {
			unk("no port info for %s", name)
		}
		if _, isNil := pi.(cnilT); isNil {
			unk("nil port info")
		}
		var with string
		switch strField(pi, "portType") {
		case "o":
			ip, ok := lookup(outIPs, name)
			if _, isNil := ip.(cnilT); !ok || isNil {
				return cmustfail{"missing out IP"}
			}
			tp, _ := c.callVals("tempPathOf", strField(ip, "path")).(string)
			with = strings.ReplaceAll(apply(tp), "../", "__parent__")
		case "os":
			ip, ok := lookup(outIPs, name)
			if _, isNil := ip.(cnilT); !ok || isNil {
				return cmustfail{"missing out IP"}
			}
			with = apply(strField(ip, "path") + ".fifo")
			if !hasBase {
				with = prependOf(with)
			}
		case "i":
			ip, ok := lookup(inIPs, name)
			if _, isNil := ip.(cnilT); !ok || isNil {
				return cmustfail{"missing in IP"}
			}
			if boolField(pi, "join") && strField(pi, "joinSep") != "" {
				var paths []string
				if members, ok := lookup(subs, name); ok {
					ms, _ := members.(cseq)
					for _, mem := range ms {
						paths = append(paths, prependOf(apply(strField(mem, "path"))))
					}
				}
				with = strings.Join(paths, strField(pi, "joinSep"))
			} else {
				p := strField(ip, "path")
				if p == "" {
					return cmustfail{"empty in path"}
				}
				if boolField(ip, "doStream") {
					p += ".fifo"
				}
				with = apply(p)
				if !hasBase {
					with = prependOf(with)
				}
			}
		case "p":
			pv, _ := lookup(params, name)
			s, _ := pv.(string)
			if s == "" {
				return cmustfail{"missing parameter value"}
			}
			with = apply(s)
		case "t":
			tv, _ := lookup(tags, name)
			s, _ := tv.(string)
			if s == "" {
				return cmustfail{"missing tag value"}
			}
			with = apply(s)
		default:
			return cmustfail{"unknown port type"}
		}
		if strings.ContainsAny(with, "{}") {
			unk("a replacement contains braces (the meaning of nested placeholders is not defined: known finding F5)")
		}
		reps = append(reps, rep{m[0], with})
	}
	out := cmd
	for _, r := range reps {
		out = strings.ReplaceAll(out, r.match, r.with)
	}
	if prepend != "" {
		out = prepend + " " + out
	}
	return out
}
