package main

import (
	"bytes"
	"context"
	"fmt"
	"os"
	"os/exec"
	"path/filepath"
	"regexp"
	"strings"
	"sync"
	"time"
)

type solverSpec struct {
	Name string
	Bin  string
	Args func(timeoutS int, file string) []string
}

var solvers = []solverSpec{
	{"z3-new", "z3-new", func(t int, f string) []string { return []string{fmt.Sprintf("-T:%d", t), f} }},
	{"z3", "z3", func(t int, f string) []string { return []string{fmt.Sprintf("-T:%d", t), f} }},
	{"cvc5", "cvc5", func(t int, f string) []string {
		return []string{"--strings-exp", fmt.Sprintf("--tlimit=%d", t*1000), "--produce-models", f}
	}},
}

type axiomText struct {
	Name string
	SMT  string
	Syms []string
}

var symRe = regexp.MustCompile(`[A-Za-z_][A-Za-z0-9_!.$]*`)

// buildQuery assembles the SMT-LIB text of one obligation.
func (v *Verifier) buildQuery(o *Obligation, withModel bool) string {
	var sb strings.Builder
	sb.WriteString("(set-option :produce-models true)\n(set-logic ALL)\n")
	body := strings.Join(o.Consts, "\n") + "\n" + strings.Join(o.Asserts, "\n") + "\n" + o.Goal
	// relevant axioms: fixpoint over mentioned ghost functions
	used := map[int]bool{}
	text := body
	for changed := true; changed; {
		changed = false
		for i, ax := range v.axioms {
			if used[i] || (o.Kind == "lemma" && i >= o.lemmaIdx) {
				continue
			}
			for _, s := range ax.Syms {
				if containsSym(text, s) {
					used[i] = true
					text += "\n" + ax.SMT
					changed = true
					break
				}
			}
		}
	}
	for _, d := range v.decls.order {
		sb.WriteString(d)
		sb.WriteByte('\n')
	}
	for i, ax := range v.axioms {
		if used[i] {
			sb.WriteString("; axiom " + ax.Name + "\n(assert " + ax.SMT + ")\n")
		}
	}
	for _, c := range o.Consts {
		sb.WriteString(c)
		sb.WriteByte('\n')
	}
	for _, a := range o.Asserts {
		sb.WriteString("(assert " + a + ")\n")
	}
	sb.WriteString("; goal: " + o.Name + " :: " + strings.ReplaceAll(o.Clause, "\n", " ") + "\n")
	sb.WriteString("(assert (not " + o.Goal + "))\n(check-sat)\n")
	if withModel {
		sb.WriteString("(get-model)\n")
	}
	return sb.String()
}

func containsSym(text, sym string) bool {
	idx := 0
	for {
		i := strings.Index(text[idx:], sym)
		if i < 0 {
			return false
		}
		i += idx
		end := i + len(sym)
		okL := i == 0 || !isSymChar(text[i-1])
		okR := end >= len(text) || !isSymChar(text[end])
		if okL && okR {
			return true
		}
		idx = i + 1
	}
}

func isSymChar(c byte) bool {
	return c == '_' || c == '!' || c == '.' || c == '$' || (c >= '0' && c <= '9') || (c >= 'a' && c <= 'z') || (c >= 'A' && c <= 'Z')
}

// prepareAxioms evaluates all axioms (and proven lemmas) to SMT once.
func (v *Verifier) prepareAxioms() {
	st := newState()
	for _, ax := range v.cs.Axioms {
		var pkg = v.pkgByPath(ax.PkgPath)
		c := &EvalCtx{v: v, pkg: pkg, vars: map[string]Term{}, st: st}
		t, err := c.Eval(ax.E)
		if err != nil {
			v.internalErr("axiom %s: %v", ax.Name, err)
			v.axioms = append(v.axioms, axiomText{Name: ax.Name, SMT: "true"})
			continue
		}
		if t.Sort != sBool {
			v.internalErr("axiom %s is not boolean", ax.Name)
			v.axioms = append(v.axioms, axiomText{Name: ax.Name, SMT: "true"})
			continue
		}
		syms := map[string]bool{}
		for _, s := range symRe.FindAllString(t.S, -1) {
			if _, ok := v.cs.GhostFuncs[s]; ok {
				syms[s] = true
			}
		}
		var sl []string
		for s := range syms {
			sl = append(sl, s)
		}
		v.axioms = append(v.axioms, axiomText{Name: ax.Name, SMT: t.S, Syms: sl})
	}
}

type solveResult struct {
	Result string
	Solver string
	Time   float64
	Output string
}

func runSolver(ctx context.Context, sp solverSpec, file string, timeoutS int) solveResult {
	start := time.Now()
	cctx, cancel := context.WithTimeout(ctx, time.Duration(timeoutS+2)*time.Second)
	defer cancel()
	cmd := exec.CommandContext(cctx, sp.Bin, sp.Args(timeoutS, file)...)
	var out bytes.Buffer
	cmd.Stdout = &out
	cmd.Stderr = &out
	_ = cmd.Run()
	el := time.Since(start).Seconds()
	s := out.String()
	first := strings.TrimSpace(strings.SplitN(s, "\n", 2)[0])
	res := "unknown"
	switch {
	case first == "unsat":
		res = "unsat"
	case first == "sat":
		res = "sat"
	case strings.Contains(first, "timeout") || cctx.Err() != nil:
		res = "timeout"
	case strings.HasPrefix(first, "(error") || strings.Contains(first, "rror"):
		res = "error"
	}
	return solveResult{Result: res, Solver: sp.Name, Time: el, Output: s}
}

// solveAll discharges all obligations in parallel with a solver portfolio.
func (v *Verifier) solveAll(obls []*Obligation, workDir string, timeoutS int, jobs int) {
	os.MkdirAll(workDir, 0o755)
	sem := make(chan struct{}, jobs)
	var wg sync.WaitGroup
	for idx, o := range obls {
		if o.Result == "error" { // out-of-subset marker
			continue
		}
		if o.Consts == nil && o.Asserts == nil && o.Goal == "false" && o.Kind == "detached" {
			o.Result = "detached"
			continue
		}
		wg.Add(1)
		go func(idx int, o *Obligation) {
			defer wg.Done()
			file := filepath.Join(workDir, fmt.Sprintf("%04d_%s.smt2", idx, sanitizeFile(o.Name)))
			o.File = file
			q := v.buildQuery(o, true)
			if err := os.WriteFile(file, []byte(q), 0o644); err != nil {
				o.Result = "error"
				o.Output = err.Error()
				return
			}
			to := timeoutS
			if o.Canary {
				to = 2
			}
			ctx, cancel := context.WithCancel(context.Background())
			defer cancel()
			resCh := make(chan solveResult, len(solvers))
			for _, sp := range solvers {
				sp := sp
				go func() {
					sem <- struct{}{}
					defer func() { <-sem }()
					if ctx.Err() != nil {
						resCh <- solveResult{Result: "cancelled", Solver: sp.Name}
						return
					}
					resCh <- runSolver(ctx, sp, file, to)
				}()
			}
			var all []solveResult
			var best *solveResult
			for range solvers {
				r := <-resCh
				all = append(all, r)
				if r.Result == "unsat" || r.Result == "sat" {
					if best == nil {
						rr := r
						best = &rr
						cancel()
					} else if best.Result != r.Result && (r.Result == "unsat" || r.Result == "sat") {
						o.Output += fmt.Sprintf("\nSOLVER-DISAGREEMENT: %s says %s, %s says %s", best.Solver, best.Result, r.Solver, r.Result)
					}
				}
			}
			if best != nil {
				o.Result, o.Solver, o.Time = best.Result, best.Solver, best.Time
				if best.Result == "sat" {
					o.Model = best.Output
				}
				return
			}
			// no definitive answer
			o.Result = "unknown"
			var parts []string
			maxT := 0.0
			for _, r := range all {
				parts = append(parts, fmt.Sprintf("%s:%s", r.Solver, r.Result))
				if r.Time > maxT {
					maxT = r.Time
				}
				if r.Result == "error" {
					o.Output += "\n" + r.Solver + ": " + firstLines(r.Output, 3)
				}
				if r.Result == "timeout" {
					o.Result = "timeout"
				}
			}
			o.Solver = strings.Join(parts, ",")
			o.Time = maxT
		}(idx, o)
	}
	wg.Wait()
}

func firstLines(s string, n int) string {
	ls := strings.Split(s, "\n")
	if len(ls) > n {
		ls = ls[:n]
	}
	return strings.Join(ls, " | ")
}

func sanitizeFile(s string) string {
	r := strings.NewReplacer("/", "_", "*", "", "(", "", ")", "", " ", "_", "#", "-", "$", "S", "@", "-", ":", "_")
	s = r.Replace(s)
	if len(s) > 120 {
		s = s[:120]
	}
	return s
}
