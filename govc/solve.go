package main

import (
	"sync/atomic"
	"bytes"
	"context"
	"fmt"
	"os"
	"os/exec"
	"path/filepath"
	"regexp"
	"sort"
	"strings"
	"sync"
	"time"
)

type solverSpec struct {
	Name string
	Bin  string
	Args func(timeoutS int, file string) []string
}

var solvers = []solverSpec{
	{"z3-new", "z3-new", func(t int, f string) []string { return []string{fmt.Sprintf("-T:%d", t), f} }},
	{"cvc5", "cvc5", func(t int, f string) []string {
		return []string{"--strings-exp", fmt.Sprintf("--tlimit=%d", t*1000), "--produce-models", f}
	}},
	{"z3", "z3", func(t int, f string) []string { return []string{fmt.Sprintf("-T:%d", t), f} }},
}

type axiomText struct {
	Name string
	SMT  string
	Syms []string
}

var symRe = regexp.MustCompile(`[A-Za-z_][A-Za-z0-9_!.$]*`)

// buildQuery assembles the SMT-LIB text of one obligation.
var groundNanos int64

// buildSem limits how many queries are built at the same time (building is CPU work inside this process)
var buildSem = make(chan struct{}, 14)

func (v *Verifier) buildQuery(o *Obligation, withModel bool, refute bool, ground bool) string {
	var sb strings.Builder
	sb.WriteString("(set-option :produce-models true)\n(set-logic ALL)\n")
	// lazily included closedness facts: only for heap symbols that are mentioned elsewhere
	var plain []string
	var lazy [][2]string
	for _, a := range o.Asserts {
		if strings.HasPrefix(a, ";;closed ") {
			nl := strings.Index(a, "\n")
			lazy = append(lazy, [2]string{strings.TrimPrefix(a[:nl], ";;closed "), a[nl+1:]})
			continue
		}
		plain = append(plain, a)
	}
	body := strings.Join(o.Consts, "\n") + "\n" + strings.Join(plain, "\n") + "\n" + o.Goal
	var included []string
	for _, lz := range lazy {
		if containsSym(body, lz[0]) {
			included = append(included, lz[1])
		}
	}
	for sym, f := range v.lazyGlobal {
		if f != "" && containsSym(body, sym) {
			included = append(included, f)
		}
	}
	sort.Strings(included)
	plain = append(included, plain...)
	// relevant axioms: fixpoint over mentioned ghost functions
	used := map[int]bool{}
	text := body
	for changed := true; changed; {
		changed = false
		for i, ax := range v.axioms {
			if used[i] || (o.Kind == "lemma" && i >= o.lemmaIdx) {
				continue
			}
			for _, s := range ax.Syms {
				if containsSym(text, s) {
					used[i] = true
					text += "\n" + ax.SMT
					changed = true
					break
				}
			}
		}
	}
	for i, d := range v.decls.order {
		if refute {
			if alt, ok := v.decls.interp[v.decls.keys[i]]; ok {
				d = alt
			}
		}
		sb.WriteString(d)
		sb.WriteByte('\n')
	}
	var axTexts []string
	groundGoal := ""
	for i, ax := range v.axioms {
		if used[i] {
			if refute && v.axiomInterpreted(ax) {
				sb.WriteString("; axiom " + ax.Name + " omitted: implied by the interpretation\n")
				continue
			}
			if ground {
				sb.WriteString("; axiom " + ax.Name + "\n")
				axTexts = append(axTexts, ax.SMT)
				continue
			}
			sb.WriteString("; axiom " + ax.Name + "\n(assert " + ax.SMT + ")\n")
		}
	}
	for _, c := range o.Consts {
		sb.WriteString(c)
		sb.WriteByte('\n')
	}
	if ground {
		all := append(axTexts, plain...)
		skGoal, skDecls := skolemizeGoalMode(o.Goal, v.groundExtended(o))
		for _, d := range skDecls {
			sb.WriteString(d + "\n")
		}
		t0g := time.Now()
		inst, nq, ni, newGoal := groundInstantiateMode(all, skGoal, 3, 600, v.groundExtended(o))
		atomic.AddInt64(&groundNanos, int64(time.Since(t0g)))
		groundGoal = newGoal
		sb.WriteString(fmt.Sprintf("; ground mode: %d quantified assumptions replaced by %d instances\n", nq, ni))
		plain = inst
	}
	for _, a := range plain {
		sb.WriteString("(assert " + a + ")\n")
	}
	sb.WriteString("; goal: " + o.Name + " :: " + strings.ReplaceAll(o.Clause, "\n", " ") + "\n")
	goalText := o.Goal
	if groundGoal != "" {
		goalText = groundGoal
	}
	sb.WriteString("(assert (not " + goalText + "))\n(check-sat)\n")
	if withModel {
		sb.WriteString("(get-model)\n")
	}
	return sb.String()
}

// axiomInterpreted: every ghost function the axiom mentions has an SMT interpretation
func (v *Verifier) axiomInterpreted(ax axiomText) bool {
	if len(ax.Syms) == 0 {
		return false
	}
	for _, s := range ax.Syms {
		gf := v.cs.GhostFuncs[s]
		if gf == nil || gf.Interp == "" {
			return false
		}
	}
	return true
}

func containsSym(text, sym string) bool {
	idx := 0
	for {
		i := strings.Index(text[idx:], sym)
		if i < 0 {
			return false
		}
		i += idx
		end := i + len(sym)
		okL := i == 0 || !isSymChar(text[i-1])
		okR := end >= len(text) || !isSymChar(text[end])
		if okL && okR {
			return true
		}
		idx = i + 1
	}
}

func isSymChar(c byte) bool {
	return c == '_' || c == '!' || c == '.' || c == '$' || (c >= '0' && c <= '9') || (c >= 'a' && c <= 'z') || (c >= 'A' && c <= 'Z')
}

// prepareAxioms evaluates all axioms (and proven lemmas) to SMT once.
func (v *Verifier) prepareAxioms() {
	st := newState()
	for _, ax := range v.cs.Axioms {
		var pkg = v.pkgByPath(ax.PkgPath)
		c := &EvalCtx{v: v, pkg: pkg, vars: map[string]Term{}, st: st}
		t, err := c.Eval(ax.E)
		if err != nil {
			v.internalErr("axiom %s: %v", ax.Name, err)
			v.axioms = append(v.axioms, axiomText{Name: ax.Name, SMT: "true"})
			continue
		}
		if t.Sort != sBool {
			v.internalErr("axiom %s is not boolean", ax.Name)
			v.axioms = append(v.axioms, axiomText{Name: ax.Name, SMT: "true"})
			continue
		}
		syms := map[string]bool{}
		for _, s := range symRe.FindAllString(t.S, -1) {
			if _, ok := v.cs.GhostFuncs[s]; ok {
				syms[s] = true
			}
		}
		var sl []string
		for s := range syms {
			sl = append(sl, s)
		}
		v.axioms = append(v.axioms, axiomText{Name: ax.Name, SMT: t.S, Syms: sl})
	}
}

type solveResult struct {
	Result string
	Solver string
	Time   float64
	Output string
}

func runSolver(ctx context.Context, sp solverSpec, file string, timeoutS int) solveResult {
	start := time.Now()
	cctx, cancel := context.WithTimeout(ctx, time.Duration(timeoutS+2)*time.Second)
	defer cancel()
	cmd := exec.CommandContext(cctx, sp.Bin, sp.Args(timeoutS, file)...)
	var out bytes.Buffer
	cmd.Stdout = &out
	cmd.Stderr = &out
	_ = cmd.Run()
	el := time.Since(start).Seconds()
	s := out.String()
	first := strings.TrimSpace(strings.SplitN(s, "\n", 2)[0])
	res := "unknown"
	switch {
	case first == "unsat":
		res = "unsat"
	case first == "sat":
		res = "sat"
	case strings.Contains(first, "timeout") || cctx.Err() != nil:
		res = "timeout"
	case strings.HasPrefix(first, "(error") || strings.Contains(first, "rror"):
		res = "error"
	}
	return solveResult{Result: res, Solver: sp.Name, Time: el, Output: s}
}

// portfolio runs the solvers on one file (staggered start) and returns the first definitive answer.
func portfolio(file string, timeoutS int, sem chan struct{}, which []solverSpec) (best *solveResult, all []solveResult, disagreement string) {
	return portfolioCtx(context.Background(), file, timeoutS, sem, which)
}

func portfolioCtx(parent context.Context, file string, timeoutS int, sem chan struct{}, which []solverSpec) (best *solveResult, all []solveResult, disagreement string) {
	ctx, cancel := context.WithCancel(parent)
	defer cancel()
	resCh := make(chan solveResult, len(which))
	for k, sp := range which {
		sp := sp
		delay := time.Duration(k) * 120 * time.Millisecond
		if sp.Name == "z3" {
			delay = 1500 * time.Millisecond // the old z3 rarely wins; give the others a head start
		}
		go func() {
			select {
			case <-time.After(delay):
			case <-ctx.Done():
				resCh <- solveResult{Result: "cancelled", Solver: sp.Name}
				return
			}
			select {
			case sem <- struct{}{}:
			case <-ctx.Done():
				resCh <- solveResult{Result: "cancelled", Solver: sp.Name}
				return
			}
			defer func() { <-sem }()
			if ctx.Err() != nil {
				resCh <- solveResult{Result: "cancelled", Solver: sp.Name}
				return
			}
			resCh <- runSolver(ctx, sp, file, timeoutS)
		}()
	}
	for range which {
		r := <-resCh
		all = append(all, r)
		if r.Result == "unsat" || r.Result == "sat" {
			if best == nil {
				rr := r
				best = &rr
				cancel()
			} else if best.Result != r.Result {
				disagreement = fmt.Sprintf("SOLVER-DISAGREEMENT: %s says %s, %s says %s", best.Solver, best.Result, r.Solver, r.Result)
			}
		}
	}
	return
}

// solveAll discharges all obligations in parallel with a solver portfolio.
func (v *Verifier) solveAll(obls []*Obligation, workDir string, timeoutS int, jobs int) {
	os.MkdirAll(workDir, 0o755)
	sem := make(chan struct{}, jobs)
	var wg sync.WaitGroup
	for idx, o := range obls {
		if o.Result == "error" { // out-of-subset marker
			continue
		}
		if o.Result == "detached" || o.Preset {
			continue
		}
		wg.Add(1)
		go func(idx int, o *Obligation) {
			defer wg.Done()
			t0 := time.Now()
			defer func() { o.Wall = time.Since(t0).Seconds() }()
			file := filepath.Join(workDir, fmt.Sprintf("%04d_%s.smt2", idx, sanitizeFile(o.Name)))
			o.File = file
			to := timeoutS
			if o.Canary {
				to = 1
			}
			if o.Known {
				to = 3
			}
			if !o.Known {
				buildSem <- struct{}{}
				plainText := v.buildQuery(o, true, false, false)
				<-buildSem
				if err := os.WriteFile(file, []byte(plainText), 0o644); err != nil {
					o.Result, o.Output = "error", err.Error()
					return
				}
				gfile := strings.TrimSuffix(file, ".smt2") + ".ground.smt2"
				var gerr error
				type pres struct {
					best   *solveResult
					all    []solveResult
					dis    string
					ground bool
				}
				ch := make(chan pres, 2)
				rctx, rcancel := context.WithCancel(context.Background())
				defer rcancel()
				go func() {
					which := solvers
					if o.Canary {
						which = solvers[:1] // vacuity canaries: one solver, short timeout
					}
					b, a, d := portfolioCtx(rctx, file, to, sem, which)
					ch <- pres{b, a, d, false}
				}()
				n := 1
				if gerr == nil && !o.Canary {
					n = 2
					go func() {
						// second formulation: quantified assumptions instantiated by the generator itself and dropped.
						// It is built only if the plain query has not been decided within 300 ms (most are).
						select {
						case <-time.After(150 * time.Millisecond):
						case <-rctx.Done():
							ch <- pres{nil, nil, "", true}
							return
						}
						buildSem <- struct{}{}
						groundText := v.buildQuery(o, true, false, true)
						<-buildSem
						if rctx.Err() != nil || os.WriteFile(gfile, []byte(groundText), 0o644) != nil {
							ch <- pres{nil, nil, "", true}
							return
						}
						b, a, d := portfolioCtx(rctx, gfile, to, sem, solvers)
						ch <- pres{b, a, d, true}
					}()
				}
				if gerr == nil && !o.Canary && os.Getenv("GOVC_NO3") == "" {
					// third formulation (started late, only hard obligations get here): the ground-instantiated query with the
					// quantifiers that remain nested inside other assumptions weakened away, i.e. a quantifier-free set of
					// assumptions that is implied by the original one
					n = 3
					go func() {
						select {
						case <-time.After(1500 * time.Millisecond):
						case <-rctx.Done():
							ch <- pres{nil, nil, "", true}
							return
						}
						qfile := strings.TrimSuffix(file, ".smt2") + ".groundqf.smt2"
						eo := *o
						eo.extGround = true
						buildSem <- struct{}{}
						etext := v.buildQuery(&eo, true, false, true)
						<-buildSem
						if os.WriteFile(qfile, []byte(weakenAssumptions(etext)), 0o644) != nil {
							ch <- pres{nil, nil, "", true}
							return
						}
						b, a, d := portfolioCtx(rctx, qfile, to, sem, solvers[:2])
						if b != nil && b.Result != "unsat" {
							b = nil // a weakened query proves nothing by being satisfiable
						}
						ch <- pres{b, a, d, true}
					}()
				}
				var normal *pres
				for k := 0; k < n; k++ {
					r := <-ch
					if r.dis != "" {
						o.Output += "\n" + r.dis
						o.Disagree = true
					}
					if r.best != nil && r.best.Result == "unsat" {
						o.Result, o.Solver, o.Time = "unsat", r.best.Solver, r.best.Time
						if r.ground {
							o.Solver += "(ground-instantiated)"
							o.File = gfile
						}
						return
					}
					if !r.ground {
						rr := r
						normal = &rr
					}
				}
				if normal != nil {
					best, all := normal.best, normal.all
					if best != nil {
						o.Result, o.Solver, o.Time = best.Result, best.Solver, best.Time
						if best.Result == "sat" {
							o.Model = best.Output
						}
					} else {
						o.Result = "unknown"
						var parts []string
						for _, r := range all {
							parts = append(parts, fmt.Sprintf("%s:%s", r.Solver, r.Result))
							if r.Time > o.Time {
								o.Time = r.Time
							}
							if r.Result == "error" {
								o.Output += "\n" + r.Solver + ": " + firstLines(r.Output, 3)
							}
							if r.Result == "timeout" {
								o.Result = "timeout"
							}
						}
						o.Solver = strings.Join(parts, ",")
					}
				}
				if o.Canary {
					return
				}
				// third attempt: a conjunctive goal is proved conjunct by conjunct (in parallel)
				if parts := splitConjuncts(o.Goal); len(parts) > 1 && len(parts) <= 12 {
					okCh := make(chan float64, len(parts))
					for pi, part := range parts {
						go func(pi int, part string) {
							po := *o
							po.Goal = part
							pfile := strings.TrimSuffix(file, ".smt2") + fmt.Sprintf(".part%d.smt2", pi)
							po.extGround = true
							ptext := v.buildQuery(&po, true, false, true)
							if err := os.WriteFile(pfile, []byte(ptext), 0o644); err != nil {
								okCh <- -1
								return
							}
							pbest, _, _ := portfolio(pfile, to, sem, solvers)
							if pbest == nil || pbest.Result != "unsat" {
								// once more with the nested quantifiers of the assumptions weakened away (quantifier-free assumptions)
								qfile := strings.TrimSuffix(pfile, ".smt2") + ".qf.smt2"
								if os.WriteFile(qfile, []byte(weakenAssumptions(ptext)), 0o644) == nil {
									pbest, _, _ = portfolio(qfile, to, sem, solvers[:2])
								}
							}
							if pbest == nil || pbest.Result != "unsat" {
								okCh <- -1
								return
							}
							okCh <- pbest.Time
						}(pi, part)
					}
					allOK := true
					total := 0.0
					for range parts {
						t := <-okCh
						if t < 0 {
							allOK = false
						} else {
							total += t
						}
					}
					if allOK {
						o.Result, o.Solver, o.Time = "unsat", fmt.Sprintf("portfolio(ground-instantiated, %d conjuncts)", len(parts)), o.Time+total
						return
					}
				}
			}
			// refutation mode: interpreted library functions, to obtain a concrete model
			rfile := strings.TrimSuffix(file, ".smt2") + ".refute.smt2"
			if err := os.WriteFile(rfile, []byte(v.buildQuery(o, true, true, false)), 0o644); err != nil {
				return
			}
			rto := 5
			if o.Known {
				rto = 2 // a listed finding: the obligation is expected to fail, a model is a bonus
			}
			best, _, _ := portfolio(rfile, rto, sem, []solverSpec{solvers[1], solvers[0]})
			if best == nil && !o.Known {
				// cvc5 answers "unknown" but still prints a candidate model when quantified assumptions remain
				r := runSolver(context.Background(), solvers[1], rfile, rto)
				if r.Result == "unknown" && strings.Contains(r.Output, "define-fun") {
					o.RefuteModel = r.Output
					o.RefuteSolver = "cvc5(candidate model, quantifiers unchecked)"
				}
			}
			if best != nil && best.Result == "sat" {
				o.RefuteModel = best.Output
				o.RefuteSolver = best.Solver
				if o.Known || o.Result != "sat" {
					o.Result, o.Solver, o.Time = "sat", best.Solver+"(refutation mode)", o.Time+best.Time
				}
				o.File = rfile
			}
			if !o.Known && o.Replayable && (len(o.ReplayAssume) > 0 || !(best != nil && best.Result == "sat")) {
				// candidate mode: the quantified assumptions are dropped; the model of the weakened query is only a
				// candidate input, which the replay validates against the real code (it never decides an obligation)
				cfile := strings.TrimSuffix(file, ".smt2") + ".candidate.smt2"
				var keep []string
				// (ground mode: the quantified assumptions are first instantiated on the ground terms of the query, so that the
				// candidate respects their relevant instances, e.g. "the nil map has no keys")
				co := *o
				// objects are well formed the way the constructors make them: embedded pointers of allocated objects are set
				for hv := range v.embeddedPtr {
					if !v.decls.seen["heap0:"+hv] {
						continue
					}
					sym := smtIdent(hv) + "_0"
					co.Asserts = append(co.Asserts[:len(co.Asserts):len(co.Asserts)], "(forall ((r!w Int)) (=> (> r!w 0) (> (select "+sym+" r!w) 0)))")
				}
				// "the nil map has no keys" in a form the ground instantiation can match on any map term
				for _, m := range mdDeclRe.FindAllStringSubmatch(v.buildQuery(o, false, true, false), -1) {
					co.Asserts = append(co.Asserts[:len(co.Asserts):len(co.Asserts)], "(forall ((m!z Int) (k!z "+m[2]+")) (=> (select (select "+m[1]+" m!z) k!z) (not (= m!z 0))))")
				}
				for _, ln := range strings.Split(v.buildQuery(&co, true, true, true), "\n") {
					if strings.HasPrefix(ln, "(assert (forall") || strings.HasPrefix(ln, "(assert (exists") {
						continue
					}
					if strings.Contains(ln, "(forall ") || strings.Contains(ln, "(exists ") {
						ln = dropNestedQuantifiers(ln)
					}
					keep = append(keep, ln)
				}
				base := strings.Join(keep, "\n")
				variants := []string{base}
				if len(o.ReplayAssume) > 0 {
					extra := ""
					for _, a := range o.ReplayAssume {
						extra += "(assert " + dropNestedQuantifiers(a) + ")\n"
					}
					variants = []string{strings.Replace(base, "(check-sat)", extra+"(check-sat)", 1), base}
				}
			search:
				for _, text := range variants {
					if os.WriteFile(cfile, []byte(text), 0o644) != nil {
						break
					}
					for _, si := range []int{1, 0} {
						r := runSolver(context.Background(), solvers[si], cfile, 8)
						if r.Result == "sat" {
							o.CandidateModel, o.CandidateFile, o.CandidateSolver = r.Output, cfile, si
							break search
						}
					}
				}
			}
			if best != nil && best.Result == "sat" {
			} else if o.Known {
				o.Result = "unknown"
				if best != nil {
					// unsat in refutation mode: the interpreted functions prove the goal although the assumed axioms do not
					o.Result = "unknown(refute:" + best.Result + ")"
				}
			}
		}(idx, o)
	}
	wg.Wait()
}

func firstLines(s string, n int) string {
	ls := strings.Split(s, "\n")
	if len(ls) > n {
		ls = ls[:n]
	}
	return strings.Join(ls, " | ")
}

func sanitizeFile(s string) string {
	r := strings.NewReplacer("/", "_", "*", "", "(", "", ")", "", " ", "_", "#", "-", "$", "S", "@", "-", ":", "_")
	s = r.Replace(s)
	if len(s) > 120 {
		s = s[:120]
	}
	return s
}

// dropNestedQuantifiers weakens an assertion so that it has no quantified subformulas (candidate mode only): a quantified
// subformula in positive position becomes true, in negative position false; if one sits in a non-monotone position
// (under =, ite, ...) the whole assertion is dropped. The result is implied by the original assertion.
var mdDeclRe = regexp.MustCompile(`\(declare-const (MD_\S+) \(Array Int \(Array (\S+) Bool\)\)\)`)

func dropNestedQuantifiers(line string) string {
	ps := parseSx(line)
	if len(ps) != 1 || len(ps[0].kids) != 2 || ps[0].kids[0].atom != "assert" {
		if len(ps) == 1 {
			// a bare formula
			ok := true
			r := weakenSx(ps[0], true, &ok)
			if !ok {
				return "true"
			}
			return r.String()
		}
		return line
	}
	ok := true
	body := weakenSx(ps[0].kids[1], true, &ok)
	if !ok {
		return "; (assertion with a quantifier in a non-monotone position dropped)"
	}
	return "(assert " + body.String() + ")"
}

func hasQuant(s *sx) bool {
	if s.isAtom() {
		return false
	}
	if len(s.kids) > 0 && s.kids[0].isAtom() && (s.kids[0].atom == "forall" || s.kids[0].atom == "exists") {
		return true
	}
	for _, k := range s.kids {
		if hasQuant(k) {
			return true
		}
	}
	return false
}

func weakenSx(s *sx, pos bool, ok *bool) *sx {
	if s.isAtom() || !hasQuant(s) {
		return s
	}
	head := ""
	if len(s.kids) > 0 && s.kids[0].isAtom() {
		head = s.kids[0].atom
	}
	switch head {
	case "forall", "exists":
		if pos {
			return &sx{atom: "true"}
		}
		return &sx{atom: "false"}
	case "and", "or":
		n := &sx{kids: []*sx{s.kids[0]}}
		for _, k := range s.kids[1:] {
			n.kids = append(n.kids, weakenSx(k, pos, ok))
		}
		return n
	case "not":
		if len(s.kids) == 2 {
			return &sx{kids: []*sx{s.kids[0], weakenSx(s.kids[1], !pos, ok)}}
		}
	case "=>":
		n := &sx{kids: []*sx{s.kids[0]}}
		for i, k := range s.kids[1:] {
			if i < len(s.kids)-2 {
				n.kids = append(n.kids, weakenSx(k, !pos, ok))
			} else {
				n.kids = append(n.kids, weakenSx(k, pos, ok))
			}
		}
		return n
	}
	*ok = false
	return s
}

// weakenAssumptions: every assumption of a query that still contains a quantifier is weakened to a quantifier-free
// formula it implies (dropNestedQuantifiers); the goal is left as it is.
func weakenAssumptions(query string) string {
	lines := strings.Split(query, "\n")
	goalIdx := -1
	for i, ln := range lines {
		if strings.HasPrefix(ln, "; goal:") {
			goalIdx = i
		}
	}
	var keep []string
	for i, ln := range lines {
		if strings.HasPrefix(ln, "(assert ") && (goalIdx < 0 || i < goalIdx) && (strings.Contains(ln, "(forall ") || strings.Contains(ln, "(exists ")) {
			ln = dropNestedQuantifiers(ln)
		}
		keep = append(keep, ln)
	}
	return strings.Join(keep, "\n")
}

// groundExtended: the extended ground mode (nested quantifiers hoisted and instantiated, multi-patterns, select-over-store
// simplification of cell arrays, deep skolemisation of the goal) is used for the late fallback attempts only; the first
// ground attempt is the classic, cheaper one.
func (v *Verifier) groundExtended(o *Obligation) bool { return o.extGround }
