package main

import (
	"fmt"
)

// tryReplay attempts to replay a solver model against the real code. Returns true if a failing input was confirmed.
func tryReplay(v *Verifier, o *Obligation, replayPath, repo string) bool {
	return false
}

func runReplay(path, repo string) int {
	fmt.Println("replay file:", path)
	return 0
}
