package main

// Replay of solver counterexamples against the real code.
//
// When an obligation of function F fails with a model (refutation mode, sat), the entry state of F in that model is
// read back (get-value over the parameters and, level by level, over the objects, maps and slices reachable from them
// in the entry heap), turned into Go values inside an in-package test that is injected with `go test -overlay` (nothing
// is written into the repository), the real F is called on them, and the inputs before/after the call and the results
// are dumped by reflection. The clauses of F's contract are then evaluated on the dump (concrete.go). A clause that is
// definitely false on what the real code did is a confirmed failing input. Everything else (no model, function not
// replayable, real code satisfies every evaluable clause on that input) is reported as no-failing-input-found.
//
// Only functions that are safe to call on arbitrary inputs are replayed: those marked `deterministic structural`
// (their body was scanned: no effects, no ghost state) or carrying a `replay` line in their contract.

import (
	"bufio"
	"bytes"
	"context"
	"encoding/json"
	"fmt"
	"go/types"
	"io"
	"os"
	"os/exec"
	"path/filepath"
	"sort"
	"strconv"
	"strings"
	"time"

	"golang.org/x/tools/go/ssa"
)

type replayOutcome struct {
	Attempted   bool                   `json:"attempted"`
	Confirmed   bool                   `json:"confirmed"`
	Reason      string                 `json:"reason,omitempty"`
	ModelKind   string                 `json:"model_kind,omitempty"`
	Function    string                 `json:"function,omitempty"`
	Package     string                 `json:"package,omitempty"`
	Inputs      map[string]interface{} `json:"inputs,omitempty"`
	Observed    map[string]interface{} `json:"observed,omitempty"`
	Clauses     []map[string]string    `json:"clauses,omitempty"`
	FailedLabel string                 `json:"failed_clause,omitempty"`
	TestSource  string                 `json:"test_source,omitempty"`
	TestOutput  string                 `json:"test_output,omitempty"`
}

type pendItem struct {
	term string
	on   func(val *sx) []pendItem
}

type modelReader struct {
	v       *Verifier
	prefix  string // query up to and including (check-sat)
	cands   []string
	objects map[string]interface{}
	runs    int
	err     string
	tooBig  bool
	solver  int
	proc    *exec.Cmd
	stdin   io.WriteCloser
	stdout  *bufio.Reader
}

func (m *modelReader) declared(sym string) bool {
	return strings.Contains(m.prefix, "(declare-const "+sym+" ") || strings.Contains(m.prefix, "(declare-fun "+sym+" ")
}

// eval asks the solver for the values of terms in ONE model: the solver process is started once (query, check-sat) and
// then answers get-value commands on its standard input.
func (m *modelReader) eval(terms []string) []*sx {
	if len(terms) == 0 {
		return nil
	}
	m.runs++
	if m.proc == nil {
		if !m.start(m.solver) && !m.start(1-m.solver) {
			if m.err == "" {
				m.err = "model query: no solver reproduced a model"
			}
			return nil
		}
	}
	ans, ok := m.ask("(get-value (" + strings.Join(terms, "\n ") + "))\n")
	if !ok {
		m.err = "model query: no answer to get-value"
		return nil
	}
	ps := parseSx(ans)
	if len(ps) == 0 || len(ps[0].kids) != len(terms) {
		m.err = "model query: unexpected get-value answer: " + firstLines(ans, 2)
		return nil
	}
	var out []*sx
	for _, p := range ps[0].kids {
		if len(p.kids) != 2 {
			m.err = "model query: malformed pair"
			return nil
		}
		out = append(out, p.kids[1])
	}
	return out
}

func (m *modelReader) start(si int) bool {
	var cmd *exec.Cmd
	if si == 0 {
		cmd = exec.Command("z3-new", "-in", "-T:60")
	} else {
		cmd = exec.Command("cvc5", "--strings-exp", "--produce-models", "--tlimit=60000", "--lang=smt2", "-")
	}
	in, err1 := cmd.StdinPipe()
	outp, err2 := cmd.StdoutPipe()
	if err1 != nil || err2 != nil || cmd.Start() != nil {
		return false
	}
	m.proc, m.stdin, m.stdout = cmd, in, bufio.NewReader(outp)
	ans, ok := m.ask(m.prefix + "\n")
	if !ok || strings.TrimSpace(ans) != "sat" {
		m.stop()
		m.err = "model query: solver answered " + firstLines(strings.TrimSpace(ans), 1)
		return false
	}
	m.err = ""
	m.solver = si
	return true
}

func (m *modelReader) stop() {
	if m.proc != nil {
		m.stdin.Close()
		m.proc.Process.Kill()
		m.proc.Wait()
		m.proc = nil
	}
}

// ask sends text and reads one answer: an atom line (sat/unsat/unknown) or one balanced s-expression.
func (m *modelReader) ask(text string) (string, bool) {
	if _, err := io.WriteString(m.stdin, text); err != nil {
		return "", false
	}
	type res struct {
		s  string
		ok bool
	}
	ch := make(chan res, 1)
	go func() {
		var sb strings.Builder
		depth, inStr, started := 0, false, false
		for {
			c, err := m.stdout.ReadByte()
			if err != nil {
				ch <- res{sb.String(), false}
				return
			}
			sb.WriteByte(c)
			switch {
			case inStr:
				if c == '"' {
					inStr = false
				}
			case c == '"':
				inStr = true
				started = true
			case c == '(':
				depth++
				started = true
			case c == ')':
				depth--
			case c == '\n':
				if started && depth == 0 {
					ch <- res{sb.String(), true}
					return
				}
				if !started && strings.TrimSpace(sb.String()) != "" {
					ch <- res{sb.String(), true}
					return
				}
			default:
				if c != ' ' && c != '\t' && c != '\r' && depth == 0 && !started {
					// an atom answer such as sat: read to the end of the line
					rest, _ := m.stdout.ReadString('\n')
					sb.WriteString(rest)
					ch <- res{sb.String(), true}
					return
				}
			}
			if started && depth == 0 && !inStr && c == ')' {
				ch <- res{sb.String(), true}
				return
			}
		}
	}()
	select {
	case r := <-ch:
		return r.s, r.ok
	case <-time.After(30 * time.Second):
		m.stop()
		return "", false
	}
}

func sxInt(s *sx) (int64, bool) {
	if s.isAtom() {
		n, err := strconv.ParseInt(s.atom, 10, 64)
		return n, err == nil
	}
	if len(s.kids) == 2 && s.kids[0].atom == "-" {
		n, ok := sxInt(s.kids[1])
		return -n, ok
	}
	return 0, false
}

func sxString(s *sx) (string, bool) {
	if !s.isAtom() || len(s.atom) < 2 || s.atom[0] != '"' {
		return "", false
	}
	body := strings.ReplaceAll(s.atom[1:len(s.atom)-1], "\"\"", "\"")
	var sb strings.Builder
	for i := 0; i < len(body); i++ {
		if body[i] == '\\' && i+2 < len(body) && body[i+1] == 'u' {
			j := i + 2
			hexs := ""
			if body[j] == '{' {
				k := strings.IndexByte(body[j:], '}')
				if k > 0 {
					hexs = body[j+1 : j+k]
					j = j + k + 1
				}
			} else if j+4 <= len(body) {
				hexs = body[j : j+4]
				j += 4
			}
			if n, err := strconv.ParseUint(hexs, 16, 32); err == nil && hexs != "" {
				if n < 256 {
					sb.WriteByte(byte(n))
				} else {
					sb.WriteRune(rune(n))
				}
				i = j - 1
				continue
			}
		}
		sb.WriteByte(body[i])
	}
	return sb.String(), true
}

func typeKey(t types.Type) string {
	return types.TypeString(t, func(p *types.Package) string { return p.Name() })
}

// mk builds the pending read for a value of Go type t denoted by SMT term `term`; set receives the input spec.
func (m *modelReader) mk(t types.Type, term string, depth int, set func(interface{})) []pendItem {
	v := m.v
	zero := map[string]interface{}{"k": "zero"}
	if depth > 6 {
		set(zero)
		return nil
	}
	if namedString(t) == "time.Time" {
		return []pendItem{{term, func(val *sx) []pendItem {
			n, _ := sxInt(val)
			set(map[string]interface{}{"k": "time", "v": n})
			return nil
		}}}
	}
	switch u := t.Underlying().(type) {
	case *types.Basic:
		kind := ""
		switch {
		case u.Info()&types.IsBoolean != 0:
			kind = "bool"
		case u.Info()&types.IsString != 0:
			kind = "string"
		case u.Info()&types.IsInteger != 0:
			kind = "int"
		default:
			set(zero)
			return nil
		}
		return []pendItem{{term, func(val *sx) []pendItem {
			switch kind {
			case "bool":
				set(map[string]interface{}{"k": "bool", "v": val.isAtom() && val.atom == "true"})
			case "int":
				n, _ := sxInt(val)
				set(map[string]interface{}{"k": "int", "v": n})
			case "string":
				s, ok := sxString(val)
				if !ok {
					m.err = "cannot decode string value " + val.String()
				}
				set(map[string]interface{}{"k": "string", "v": s})
			}
			return nil
		}}}
	case *types.Pointer:
		st, named := derefStruct(t)
		if st == nil || named == nil {
			set(zero)
			return nil
		}
		return []pendItem{{term, func(val *sx) []pendItem {
			n, _ := sxInt(val)
			if n <= 0 {
				set(map[string]interface{}{"k": "ptr", "ref": ""})
				return nil
			}
			key := typeKey(named) + ":" + fmt.Sprint(n)
			set(map[string]interface{}{"k": "ptr", "ref": key})
			if _, done := m.objects[key]; done {
				return nil
			}
			fields := map[string]interface{}{}
			m.objects[key] = map[string]interface{}{"fields": fields}
			return m.structFields(named, st, fmt.Sprint(n), depth+1, fields)
		}}}
	case *types.Struct:
		// struct value held in a variable: modelled as a reference to an object
		named, _ := types.Unalias(t).(*types.Named)
		if named == nil {
			set(zero)
			return nil
		}
		return []pendItem{{term, func(val *sx) []pendItem {
			n, _ := sxInt(val)
			fields := map[string]interface{}{}
			set(map[string]interface{}{"k": "struct", "fields": fields})
			return m.structFields(named, u, fmt.Sprint(n), depth+1, fields)
		}}}
	case *types.Map:
		ks := v.decls.sortOf(u.Key())
		if ks != sString {
			set(zero)
			return nil
		}
		name := v.mapTypeName(u)
		md, mv := smtIdent("MD_"+name)+"_0", smtIdent("MV_"+name)+"_0"
		return []pendItem{{term, func(val *sx) []pendItem {
			n, _ := sxInt(val)
			if n <= 0 {
				set(map[string]interface{}{"k": "map", "ref": ""})
				return nil
			}
			key := "map[" + typeKey(u.Key()) + "]" + typeKey(u.Elem()) + ":" + fmt.Sprint(n)
			set(map[string]interface{}{"k": "map", "ref": key})
			if _, done := m.objects[key]; done {
				return nil
			}
			obj := map[string]interface{}{"entries": []interface{}{}}
			m.objects[key] = obj
			if !m.declared(md) {
				return nil
			}
			var out []pendItem
			for _, cand := range m.cands {
				cand := cand
				lit := smtString(cand)
				out = append(out, pendItem{"(select (select " + md + " " + fmt.Sprint(n) + ") " + lit + ")", func(dv *sx) []pendItem {
					if !(dv.isAtom() && dv.atom == "true") {
						return nil
					}
					entry := []interface{}{map[string]interface{}{"k": "string", "v": cand}, nil}
					obj["entries"] = append(obj["entries"].([]interface{}), entry)
					if !m.declared(mv) {
						entry[1] = zero
						return nil
					}
					return m.mk(u.Elem(), "(select (select "+mv+" "+fmt.Sprint(n)+") "+lit+")", depth+1, func(s interface{}) { entry[1] = s })
				}})
			}
			return out
		}}}
	case *types.Slice:
		ss := v.decls.sortOf(t)
		if ss == sString {
			// []byte
			return []pendItem{{term, func(val *sx) []pendItem {
				s, _ := sxString(val)
				set(map[string]interface{}{"k": "bytes", "v": s})
				return nil
			}}}
		}
		if !isSliceSort(ss) {
			set(zero)
			return nil
		}
		return []pendItem{{"(len_" + ss + " " + term + ")", func(val *sx) []pendItem {
			n, _ := sxInt(val)
			if n < 0 {
				n = 0
			}
			if n > 12 {
				m.tooBig = true
				n = 12
			}
			elems := make([]interface{}, n)
			set(map[string]interface{}{"k": "slice", "e": elems})
			var out []pendItem
			for i := int64(0); i < n; i++ {
				i := i
				out = append(out, m.mk(u.Elem(), fmt.Sprintf("(select (el_%s %s) %d)", ss, term, i), depth+1, func(s interface{}) { elems[i] = s })...)
			}
			return out
		}}}
	}
	set(zero)
	return nil
}

func (m *modelReader) structFields(named *types.Named, st *types.Struct, ref string, depth int, fields map[string]interface{}) []pendItem {
	v := m.v
	var out []pendItem
	for i := 0; i < st.NumFields(); i++ {
		f := st.Field(i)
		name := f.Name()
		if v.isEmbeddedStructField(f.Type()) {
			fn := "emb_" + typeShort(named) + "_" + f.Name()
			inner, _ := types.Unalias(f.Type()).(*types.Named)
			ist, _ := f.Type().Underlying().(*types.Struct)
			if !m.declared(fn) || inner == nil || ist == nil || inner.Obj().Pkg() == nil || !v.isRepoPkg(inner.Obj().Pkg().Path()) {
				continue
			}
			out = append(out, pendItem{"(" + fn + " " + ref + ")", func(val *sx) []pendItem {
				n, _ := sxInt(val)
				sub := map[string]interface{}{}
				fields[name] = map[string]interface{}{"k": "struct", "fields": sub}
				return m.structFields(inner, ist, fmt.Sprint(n), depth+1, sub)
			}})
			continue
		}
		hv := smtIdent("F_"+typeShort(named)+"_"+f.Name()) + "_0"
		if !m.declared(hv) {
			continue
		}
		out = append(out, m.mk(f.Type(), "(select "+hv+" "+ref+")", depth, func(s interface{}) { fields[name] = s })...)
	}
	return out
}

func stringLiteralsIn(text string, max int) []string {
	seen := map[string]bool{}
	var out []string
	for i := 0; i < len(text); i++ {
		if text[i] != '"' {
			continue
		}
		j := i + 1
		for j < len(text) {
			if text[j] == '"' {
				if j+1 < len(text) && text[j+1] == '"' {
					j += 2
					continue
				}
				break
			}
			j++
		}
		if j >= len(text) {
			break
		}
		if s, ok := sxString(&sx{atom: text[i : j+1]}); ok && !seen[s] && len(s) < 200 {
			seen[s] = true
			out = append(out, s)
		}
		i = j
	}
	sort.Slice(out, func(a, b int) bool {
		if len(out[a]) != len(out[b]) {
			return len(out[a]) < len(out[b])
		}
		return out[a] < out[b]
	})
	if len(out) > max {
		out = out[:max]
	}
	return out
}

func replayableContract(c *FuncContract) bool {
	if c == nil || c.Extern || c.Iface || c.NoReturn {
		return false
	}
	return strings.HasPrefix(c.Determ, "structural") || len(c.Replay) > 0
}

// tryReplay attempts to replay a solver model against the real code. Returns true if a failing input was confirmed.
func tryReplay(v *Verifier, o *Obligation, replayPath, repo string) bool {
	out := replayObligation(v, o, repo)
	// merge into the replay file
	var m map[string]interface{}
	if b, err := os.ReadFile(replayPath); err == nil {
		json.Unmarshal(b, &m)
	}
	if m == nil {
		m = map[string]interface{}{}
	}
	m["replay"] = out
	b, _ := json.MarshalIndent(m, "", " ")
	os.WriteFile(replayPath, b, 0o644)
	return out.Confirmed
}

func findContract(v *Verifier, key string) *FuncContract {
	for _, c := range v.cs.Order {
		if c.Key == key && !c.Extern && !c.Iface {
			return c
		}
	}
	return nil
}

func replayObligation(v *Verifier, o *Obligation, repo string) *replayOutcome {
	out := &replayOutcome{Function: o.Func}
	c := findContract(v, o.Func)
	if c == nil {
		out.Reason = "not an obligation of a function body (lemma or global obligation)"
		return out
	}
	if !replayableContract(c) {
		out.Reason = "function is not replayable (it has effects, uses channels or ghost state, or is not marked `deterministic structural` / `replay`): the obligation and the solver's answer are the report"
		return out
	}
	fn := v.functionOf(c)
	if fn == nil || fn.Parent() != nil {
		out.Reason = "closures are not replayed"
		return out
	}
	qfile, model, solverIdx := o.File, o.RefuteModel, 0
	if model == "" || !strings.HasSuffix(qfile, ".refute.smt2") || (len(o.ReplayAssume) > 0 && o.CandidateModel != "") {
		qfile, model, solverIdx = o.CandidateFile, o.CandidateModel, o.CandidateSolver
		out.ModelKind = "candidate: model of the failed obligation's query with its quantified assumptions dropped (validated only by the run on the real code)"
	} else {
		out.ModelKind = "model of the failed obligation's query (refutation mode: library spec functions interpreted)"
	}
	if model == "" || qfile == "" {
		out.ModelKind = ""
		out.Reason = "the solver gave no model for the failed obligation (" + o.Result + ")"
		return out
	}
	qb, err := os.ReadFile(qfile)
	if err != nil {
		out.Reason = "query file missing"
		return out
	}
	q := string(qb)
	if i := strings.LastIndex(q, "(check-sat)"); i >= 0 {
		q = q[:i+len("(check-sat)")]
	}
	out.Attempted = true
	mr := &modelReader{v: v, prefix: q, objects: map[string]interface{}{}, solver: solverIdx}
	defer mr.stop()
	mr.cands = stringLiteralsIn(model, 30)
	for _, s := range stringLiteralsIn(q, 30) {
		dup := false
		for _, c := range mr.cands {
			if c == s {
				dup = true
			}
		}
		if !dup && len(mr.cands) < 40 {
			mr.cands = append(mr.cands, s)
		}
	}
	// the values the model gives to the arguments of `replay input` directives are read first: their strings are the
	// most likely map keys
	riSpecs := map[string][]interface{}{}
	for _, ri := range c.ReplayInputs {
		if ts, ok := o.ReplayArgs[ri.Param]; ok {
			specs := mr.readTerms(ts)
			if specs != nil {
				riSpecs[ri.Param] = specs
				var collect func(s interface{})
				collect = func(s interface{}) {
					if m, ok := s.(map[string]interface{}); ok {
						if m["k"] == "string" {
							if sv, _ := m["v"].(string); true {
								mr.cands = append([]string{sv}, mr.cands...)
							}
						}
						if es, ok := m["e"].([]interface{}); ok {
							for _, e := range es {
								collect(e)
							}
						}
					}
				}
				for _, s := range specs {
					collect(s)
				}
			}
		}
	}
	names := sigParamNames(fn)
	if len(c.ParamNames) == len(names) {
		names = c.ParamNames
	}
	params := make([]interface{}, len(fn.Params))
	var level []pendItem
	for i, p := range fn.Params {
		i := i
		sym := "p_" + smtIdent(p.Name())
		if p.Name() == "" || p.Name() == "_" {
			sym = fmt.Sprintf("p_arg%d", i)
		}
		level = append(level, mr.mk(p.Type(), sym, 0, func(s interface{}) { params[i] = s })...)
	}
	for round := 0; round < 12 && len(level) > 0 && mr.err == ""; round++ {
		var terms []string
		for _, it := range level {
			terms = append(terms, it.term)
		}
		vals := mr.eval(terms)
		if vals == nil {
			break
		}
		var next []pendItem
		for i, it := range level {
			next = append(next, it.on(vals[i])...)
		}
		level = next
	}
	if mr.err != "" {
		out.Reason = mr.err
		return out
	}
	if mr.tooBig {
		out.Reason = "the model needs a slice longer than the replay builds"
		return out
	}
	// `replay input` directives: parameter values computed from what the model says at the failing program point
	for _, ri := range c.ReplayInputs {
		ts, ok := o.ReplayArgs[ri.Param]
		if !ok {
			continue
		}
		pi := -1
		for i, n := range names {
			if n == ri.Param {
				pi = i
			}
		}
		if pi < 0 {
			continue
		}
		_ = ts
		specs, ok := riSpecs[ri.Param]
		if !ok {
			continue
		}
		env := &cenv{v: v, vars: map[string]interface{}{}}
		call := &ECall{Fn: ri.Call.Fn}
		bad := false
		for i, s := range specs {
			cv, ok := specToConcrete(s)
			if !ok {
				bad = true
				break
			}
			nm := fmt.Sprintf("$a%d", i)
			env.vars[nm] = cv
			call.Args = append(call.Args, &EIdent{Name: nm})
		}
		if bad {
			continue
		}
		val, ok := func() (r interface{}, ok bool) {
			defer func() {
				if p := recover(); p != nil {
					if _, isU := p.(cunknown); isU {
						ok = false
						return
					}
					panic(p)
				}
			}()
			return env.eval(call), true
		}()
		if !ok {
			continue
		}
		if sp, ok := concreteToSpec(val); ok {
			params[pi] = sp
		}
	}
	for i := range params {
		if params[i] == nil {
			params[i] = map[string]interface{}{"k": "zero"}
		}
	}
	out.Inputs = map[string]interface{}{"params": params, "names": names, "objects": mr.objects}
	// functions that only read the file system (`replay fsread`): the files that exist in the model (statOK at the entry
	// epoch, asked for every string of the input and its .fifo / .audit.json companions) are created in the scratch
	// directory of the replay
	fsread := false
	for _, l := range c.Replay {
		if strings.HasPrefix(strings.TrimSpace(l), "fsread") {
			fsread = true
		}
	}
	var files []string
	if fsread {
		if mr.declared("statOK") && mr.declared("GH_fsEpoch_0") {
			ib, _ := json.Marshal(out.Inputs)
			var cands []string
			for _, s := range stringLiteralsIn(strings.ReplaceAll(string(ib), "\\\"", ""), 30) {
				cands = append(cands, s, s+".fifo", s+".audit.json")
			}
			var terms []string
			for _, s := range cands {
				terms = append(terms, "(statOK GH_fsEpoch_0 "+smtString(s)+")")
			}
			vals := mr.eval(terms)
			if vals == nil {
				out.Reason = "cannot read the model's file system: " + mr.err
				return out
			}
			for i, vv := range vals {
				if vv.isAtom() && vv.atom == "true" {
					p := cands[i]
					if p == "" || strings.HasPrefix(p, "/") || strings.Contains(p, "..") || strings.ContainsAny(p, "\x00\n") {
						out.Reason = "the model needs a file outside the scratch directory (" + strconv.Quote(p) + "): not replayed"
						return out
					}
					files = append(files, p)
				}
			}
		}
		out.Inputs["files"] = files
		out.Inputs["fs_known"] = true
	}
	pkg := fnPkg(fn)
	out.Package = pkg.Pkg.Path()
	obs, src, testOut, err := runRealFunction(v, fn, out.Inputs, repo)
	out.TestSource, out.TestOutput = src, testOut
	if err != nil {
		out.Reason = "replay run: " + err.Error()
		return out
	}
	out.Observed = obs
	if p, _ := obs["panic"].(string); p != "" {
		out.Reason = "the real function panicked on the model's input (run-time panics are outside the contracts: partial correctness): " + p
		return out
	}
	// evaluate the contract on what the real code did
	env := buildEnv(v, pkg.Pkg, c, fn, names, obs)
	if env == nil {
		out.Reason = "cannot decode the dump of the real run"
		return out
	}
	if fsread {
		env.files = map[string]bool{}
		for _, f := range files {
			env.files[f] = true
		}
	}
	// preconditions must hold on the input, otherwise the model's input is not an admissible call
	for _, r := range c.Requires {
		t := env.evalTri(&ECall{Fn: "old", Args: []Expr{r.E}})
		out.Clauses = append(out.Clauses, map[string]string{"kind": "requires", "label": r.Label, "clause": r.Src, "value": triString(t), "why": whyIf(t, env)})
		if t != triT {
			out.Reason = "precondition " + r.Label + " is not definitely true on the model's input (" + triString(t) + "): not an admissible call"
			return out
		}
	}
	for _, e := range append(append([]*Clause{}, c.Ensures...), c.ReplayChecks...) {
		t := env.evalTri(e.E)
		out.Clauses = append(out.Clauses, map[string]string{"kind": e.Kind, "label": e.Label, "clause": e.Src, "value": triString(t), "why": whyIf(t, env)})
		if t == triF && !out.Confirmed && sharesProp(e.Props, c.Props, o.Props) {
			out.Confirmed = true
			out.FailedLabel = e.Label
		}
	}
	if !out.Confirmed {
		out.Reason = "the real function satisfies every evaluable postcondition on the model's input (the failed obligation is internal to the proof or the model is spurious under the abstractions)"
	}
	return out
}

func whyIf(t tri, env *cenv) string {
	if t == triU {
		return env.why
	}
	return ""
}

// ---- running the real function ----

func goTypeString(t types.Type, pkg *types.Package) string {
	return types.TypeString(t, func(p *types.Package) string {
		if p == pkg {
			return ""
		}
		return p.Name()
	})
}

func runRealFunction(v *Verifier, fn *ssa.Function, inputs map[string]interface{}, repo string) (map[string]interface{}, string, string, error) {
	pkg := fnPkg(fn).Pkg
	var pkgDir string
	for _, p := range v.pkgs {
		if p.PkgPath == pkg.Path() && len(p.GoFiles) > 0 {
			pkgDir = filepath.Dir(p.GoFiles[0])
		}
	}
	if pkgDir == "" {
		return nil, "", "", fmt.Errorf("package directory of %s not found", pkg.Path())
	}
	target := fn.Name()
	if recv := fn.Signature.Recv(); recv != nil {
		target = "(" + goTypeString(recv.Type(), pkg) + ")." + fn.Name()
	}
	// imports needed by the type strings are avoided: arguments are built by reflection from the function's own type
	src := strings.ReplaceAll(replayTestTemplate, "PKGNAME", pkg.Name())
	src = strings.ReplaceAll(src, "TARGET", target)
	// the library's loggers are nil until one of its InitLog functions ran (every scipipe program does that first)
	setup := ""
	if obj := pkg.Scope().Lookup("InitLogError"); obj != nil {
		if _, isFn := obj.(*types.Func); isFn {
			setup = "InitLogError()"
		}
	}
	src = strings.ReplaceAll(src, "/*SETUP*/", setup)
	work, err := os.MkdirTemp("", "govc_replay_")
	if err != nil {
		return nil, src, "", err
	}
	defer os.RemoveAll(work)
	testFile := filepath.Join(work, "zz_govc_replay_test.go")
	os.WriteFile(testFile, []byte(src), 0o644)
	inFile := filepath.Join(work, "in.json")
	outFile := filepath.Join(work, "out.json")
	ib, _ := json.Marshal(inputs)
	os.WriteFile(inFile, ib, 0o644)
	ov := map[string]interface{}{"Replace": map[string]string{filepath.Join(pkgDir, "zz_govc_replay_test.go"): testFile}}
	ob, _ := json.Marshal(ov)
	ovFile := filepath.Join(work, "overlay.json")
	os.WriteFile(ovFile, ob, 0o644)
	cwd := filepath.Join(work, "cwd")
	os.MkdirAll(cwd, 0o755)
	ctx, cancel := context.WithTimeout(context.Background(), 120*time.Second)
	defer cancel()
	cmd := exec.CommandContext(ctx, "go", "test", "-overlay", ovFile, "-vet=off", "-count=1", "-timeout", "60s", "-run", "^TestGovcReplay$", ".")
	cmd.Dir = pkgDir
	cmd.Env = append(os.Environ(), "GOFLAGS=-mod=mod", "GOPROXY=off", "GOSUMDB=off", "GOTOOLCHAIN=local",
		"GOVC_REPLAY_IN="+inFile, "GOVC_REPLAY_OUT="+outFile, "GOVC_REPLAY_CWD="+cwd)
	var buf bytes.Buffer
	cmd.Stdout, cmd.Stderr = &buf, &buf
	runErr := cmd.Run()
	testOut := buf.String()
	if len(testOut) > 4000 {
		testOut = testOut[:4000]
	}
	b, err := os.ReadFile(outFile)
	if err != nil {
		return nil, src, testOut, fmt.Errorf("the replay test produced no output (%v)", runErr)
	}
	var obs map[string]interface{}
	if err := json.Unmarshal(b, &obs); err != nil {
		return nil, src, testOut, err
	}
	return obs, src, testOut, nil
}

// ---- decoding the dump ----

type dumpDecoder struct {
	objs map[int]*cstruct
}

func (d *dumpDecoder) val(x interface{}) interface{} {
	m, ok := x.(map[string]interface{})
	if !ok {
		return copaque{}
	}
	switch m["k"] {
	case "int":
		f, _ := m["v"].(float64)
		return int64(f)
	case "string":
		s, _ := m["v"].(string)
		return s
	case "bool":
		b, _ := m["v"].(bool)
		return b
	case "nil":
		return cnilT{}
	case "ptr":
		id, _ := m["id"].(float64)
		return &cptr{int(id)}
	case "struct":
		return d.strct(m)
	case "slice":
		var out cseq
		if es, ok := m["e"].([]interface{}); ok {
			for _, e := range es {
				out = append(out, d.val(e))
			}
		}
		if out == nil {
			out = cseq{}
		}
		return out
	case "map":
		id, _ := m["id"].(float64)
		isNil, _ := m["nil"].(bool)
		mv := &cmapv{id: int(id), isNil: isNil}
		if es, ok := m["e"].([]interface{}); ok {
			for _, e := range es {
				if pair, ok := e.([]interface{}); ok && len(pair) == 2 {
					mv.entries = append(mv.entries, [2]interface{}{d.val(pair[0]), d.val(pair[1])})
				}
			}
		}
		return mv
	case "opaque":
		isNil, _ := m["nil"].(bool)
		return copaque{isNil}
	}
	return copaque{}
}

func (d *dumpDecoder) strct(m map[string]interface{}) *cstruct {
	st := &cstruct{fields: map[string]interface{}{}, emb: map[string]bool{}}
	if fs, ok := m["f"].(map[string]interface{}); ok {
		for k, fv := range fs {
			st.fields[k] = d.val(fv)
		}
	}
	if es, ok := m["emb"].([]interface{}); ok {
		for _, e := range es {
			if s, ok := e.(string); ok {
				st.emb[s] = true
			}
		}
	}
	return st
}

func decodeObjs(x interface{}) map[int]*cstruct {
	d := &dumpDecoder{}
	out := map[int]*cstruct{}
	if m, ok := x.(map[string]interface{}); ok {
		for k, ov := range m {
			id, _ := strconv.Atoi(k)
			if om, ok := ov.(map[string]interface{}); ok {
				out[id] = d.strct(om)
			}
		}
	}
	return out
}

func buildEnv(v *Verifier, pkg *types.Package, c *FuncContract, fn *ssa.Function, names []string, obs map[string]interface{}) *cenv {
	d := &dumpDecoder{}
	pre, _ := obs["pre"].([]interface{})
	post, _ := obs["post"].([]interface{})
	res, _ := obs["results"].([]interface{})
	if len(pre) != len(names) || len(post) != len(names) {
		return nil
	}
	env := &cenv{v: v, pkg: pkg, vars: map[string]interface{}{}, old: map[string]interface{}{}}
	if n, ok := obs["pre_ids"].(float64); ok {
		env.preIDs = int(n)
	}
	env.objs = decodeObjs(obs["post_objs"])
	env.oldObj = decodeObjs(obs["pre_objs"])
	for i, n := range names {
		env.vars[n] = d.val(post[i])
		env.old[n] = d.val(pre[i])
		// value parameters (strings, ints ...) keep their entry value in postconditions
		switch env.old[n].(type) {
		case string, int64, bool:
			env.vars[n] = env.old[n]
		}
	}
	rnames := sigResultNames(fn.Signature)
	if len(c.ResNames) == len(rnames) {
		rnames = c.ResNames
	}
	for i, n := range rnames {
		if i < len(res) {
			env.vars[n] = d.val(res[i])
		}
	}
	if b, err := json.Marshal(obs); err == nil {
		env.strs = stringLiteralsIn(strings.ReplaceAll(string(b), "\\\"", ""), 40)
	}
	env.strs = append(env.strs, "")
	return env
}

func runReplay(path, repo string) int {
	b, err := os.ReadFile(path)
	if err != nil {
		fmt.Println("cannot read replay file:", err)
		return 2
	}
	var m map[string]interface{}
	if err := json.Unmarshal(b, &m); err != nil {
		fmt.Println("cannot parse replay file:", err)
		return 2
	}
	fmt.Printf("property:   %v\nobligation: %v\nclause:     %v\nresult:     %v (%v)\n", m["property"], m["obligation"], m["clause"], m["result"], m["solver"])
	rp, _ := m["replay"].(map[string]interface{})
	if rp == nil {
		fmt.Println("no replay section: the obligation and the solver's output above are the report")
		return 0
	}
	if att, _ := rp["attempted"].(bool); !att {
		fmt.Println("not replayed:", rp["reason"])
		return 0
	}
	inputs, _ := rp["inputs"].(map[string]interface{})
	fn, _ := rp["function"].(string)
	if inputs == nil {
		fmt.Println("not replayed:", rp["reason"])
		return 0
	}
	// run the recorded input against the current tree again
	v, err := loadVerifier(repo)
	if err != nil {
		fmt.Println("INTERNAL-ERROR load:", err)
		return 3
	}
	c := findContract(v, fn)
	if c == nil {
		fmt.Println("function no longer under contract:", fn)
		return 2
	}
	f := v.functionOf(c)
	obs, _, testOut, err := runRealFunction(v, f, inputs, repo)
	if err != nil {
		fmt.Println("replay run failed:", err)
		fmt.Println(testOut)
		return 2
	}
	names, _ := inputs["names"].([]interface{})
	var ns []string
	for _, n := range names {
		ns = append(ns, fmt.Sprint(n))
	}
	ib, _ := json.MarshalIndent(map[string]interface{}{"params": inputs["params"], "objects": inputs["objects"]}, "", " ")
	fmt.Printf("input (parameters %v):\n%s\n", ns, ib)
	rb, _ := json.MarshalIndent(obs["results"], "", " ")
	fmt.Printf("results of the real %s:\n%s\n", fn, rb)
	if p, _ := obs["panic"].(string); p != "" {
		fmt.Println("the real function panicked on this input:", p)
	}
	env := buildEnv(v, fnPkg(f).Pkg, c, f, ns, obs)
	if env == nil {
		fmt.Println("cannot decode the dump")
		return 2
	}
	if known, _ := inputs["fs_known"].(bool); known {
		env.files = map[string]bool{}
		if fl, ok := inputs["files"].([]interface{}); ok {
			for _, x := range fl {
				env.files[fmt.Sprint(x)] = true
			}
		}
		fmt.Println("files present in the scratch directory:", inputs["files"])
	}
	bad := 0
	for _, e := range append(append([]*Clause{}, c.Ensures...), c.ReplayChecks...) {
		t := env.evalTri(e.E)
		fmt.Printf("  %-11s %-28s %-8s %s\n", e.Kind, e.Label, triString(t), e.Src)
		if t == triF {
			bad++
		}
	}
	if bad > 0 {
		fmt.Printf("REPLAY-FAILS: the real code violates %d postcondition(s) on this input\n", bad)
		return 1
	}
	fmt.Println("REPLAY-PASSES: the real code satisfies every evaluable postcondition on this input")
	return 0
}

const replayTestTemplate = `package PKGNAME

// generated by govc replay: injected with go test -overlay, never written into the repository

import (
	"encoding/json"
	"fmt"
	"os"
	"path/filepath"
	"reflect"
	"testing"
	"time"
	"unsafe"
)

type govcBuilder struct {
	objects map[string]interface{}
	built   map[string]reflect.Value
}

func (b *govcBuilder) set(dst reflect.Value, v reflect.Value) {
	if !dst.CanSet() {
		dst = reflect.NewAt(dst.Type(), unsafe.Pointer(dst.UnsafeAddr())).Elem()
	}
	dst.Set(v)
}

func (b *govcBuilder) fill(dst reflect.Value, spec interface{}) {
	m, ok := spec.(map[string]interface{})
	if !ok {
		return
	}
	if !dst.CanSet() {
		dst = reflect.NewAt(dst.Type(), unsafe.Pointer(dst.UnsafeAddr())).Elem()
	}
	switch m["k"] {
	case "int":
		f, _ := m["v"].(float64)
		switch dst.Kind() {
		case reflect.Int, reflect.Int8, reflect.Int16, reflect.Int32, reflect.Int64:
			dst.SetInt(int64(f))
		case reflect.Uint, reflect.Uint8, reflect.Uint16, reflect.Uint32, reflect.Uint64:
			dst.SetUint(uint64(f))
		}
	case "string":
		s, _ := m["v"].(string)
		if dst.Kind() == reflect.String {
			dst.SetString(s)
		}
	case "bytes":
		s, _ := m["v"].(string)
		if dst.Kind() == reflect.Slice {
			dst.SetBytes([]byte(s))
		}
	case "time":
		f, _ := m["v"].(float64)
		if dst.Type() == reflect.TypeOf(time.Time{}) {
			dst.Set(reflect.ValueOf(time.Unix(0, int64(f))))
		}
	case "bool":
		v, _ := m["v"].(bool)
		if dst.Kind() == reflect.Bool {
			dst.SetBool(v)
		}
	case "slice":
		es, _ := m["e"].([]interface{})
		if dst.Kind() == reflect.Slice {
			s := reflect.MakeSlice(dst.Type(), len(es), len(es))
			for i, e := range es {
				b.fill(s.Index(i), e)
			}
			dst.Set(s)
		}
	case "struct":
		fs, _ := m["fields"].(map[string]interface{})
		b.fillStruct(dst, fs)
	case "ptr":
		ref, _ := m["ref"].(string)
		if ref == "" || dst.Kind() != reflect.Ptr {
			return
		}
		key := dst.Type().String() + "@" + ref
		if v, ok := b.built[key]; ok {
			dst.Set(v)
			return
		}
		p := reflect.New(dst.Type().Elem())
		b.built[key] = p
		dst.Set(p)
		if obj, ok := b.objects[ref].(map[string]interface{}); ok {
			fs, _ := obj["fields"].(map[string]interface{})
			b.fillStruct(p.Elem(), fs)
		}
	case "map":
		ref, _ := m["ref"].(string)
		if ref == "" || dst.Kind() != reflect.Map {
			return
		}
		key := dst.Type().String() + "@" + ref
		if v, ok := b.built[key]; ok {
			dst.Set(v)
			return
		}
		mp := reflect.MakeMap(dst.Type())
		b.built[key] = mp
		dst.Set(mp)
		if obj, ok := b.objects[ref].(map[string]interface{}); ok {
			es, _ := obj["entries"].([]interface{})
			for _, e := range es {
				pair, ok := e.([]interface{})
				if !ok || len(pair) != 2 {
					continue
				}
				k := reflect.New(dst.Type().Key()).Elem()
				b.fill(k, pair[0])
				v := reflect.New(dst.Type().Elem()).Elem()
				b.fill(v, pair[1])
				mp.SetMapIndex(k, v)
			}
		}
	}
}

func (b *govcBuilder) fillStruct(dst reflect.Value, fs map[string]interface{}) {
	if dst.Kind() != reflect.Struct {
		return
	}
	for i := 0; i < dst.NumField(); i++ {
		f := dst.Field(i)
		if spec, ok := fs[dst.Type().Field(i).Name]; ok {
			b.fill(f, spec)
		}
		// locks and embedded parts are always allocated by the constructors of the library
		if f.Kind() == reflect.Ptr && f.IsNil() && (f.Type().Elem().PkgPath() == "sync" || (dst.Type().Field(i).Anonymous && f.Type().Elem().Kind() == reflect.Struct)) {
			b.set(f, reflect.New(f.Type().Elem()))
		}
	}
}

type govcDumper struct {
	ids  map[uintptr]int
	objs map[string]interface{}
}

func (d *govcDumper) id(p uintptr) int {
	if n, ok := d.ids[p]; ok {
		return n
	}
	n := len(d.ids) + 1
	d.ids[p] = n
	return n
}

func (d *govcDumper) dump(v reflect.Value, depth int) interface{} {
	if depth > 8 {
		return map[string]interface{}{"k": "opaque"}
	}
	switch v.Kind() {
	case reflect.String:
		return map[string]interface{}{"k": "string", "v": v.String()}
	case reflect.Int, reflect.Int8, reflect.Int16, reflect.Int32, reflect.Int64:
		return map[string]interface{}{"k": "int", "v": v.Int()}
	case reflect.Uint, reflect.Uint8, reflect.Uint16, reflect.Uint32, reflect.Uint64:
		return map[string]interface{}{"k": "int", "v": v.Uint()}
	case reflect.Bool:
		return map[string]interface{}{"k": "bool", "v": v.Bool()}
	case reflect.Ptr:
		if v.IsNil() {
			return map[string]interface{}{"k": "nil"}
		}
		id := d.id(v.Pointer())
		key := fmt.Sprint(id)
		if _, done := d.objs[key]; !done && v.Elem().Kind() == reflect.Struct {
			d.objs[key] = map[string]interface{}{}
			d.objs[key] = d.dumpStruct(v.Elem(), depth+1)
		}
		return map[string]interface{}{"k": "ptr", "id": id}
	case reflect.Struct:
		if v.Type() == reflect.TypeOf(time.Time{}) {
			if v.CanAddr() {
				tv := *(*time.Time)(unsafe.Pointer(v.UnsafeAddr()))
				return map[string]interface{}{"k": "int", "v": tv.UnixNano()}
			}
			if v.CanInterface() {
				return map[string]interface{}{"k": "int", "v": v.Interface().(time.Time).UnixNano()}
			}
			return map[string]interface{}{"k": "opaque"}
		}
		return d.dumpStruct(v, depth+1)
	case reflect.Slice:
		if v.Type().Elem().Kind() == reflect.Uint8 {
			return map[string]interface{}{"k": "string", "v": string(v.Bytes())}
		}
		var es []interface{}
		for i := 0; i < v.Len(); i++ {
			es = append(es, d.dump(v.Index(i), depth+1))
		}
		return map[string]interface{}{"k": "slice", "e": es, "nil": v.IsNil()}
	case reflect.Map:
		if v.IsNil() {
			return map[string]interface{}{"k": "map", "id": 0, "nil": true}
		}
		var es []interface{}
		it := v.MapRange()
		for it.Next() {
			es = append(es, []interface{}{d.dump(it.Key(), depth+1), d.dump(it.Value(), depth+1)})
		}
		return map[string]interface{}{"k": "map", "id": d.id(v.Pointer()), "nil": false, "e": es}
	case reflect.Interface:
		if v.IsNil() {
			return map[string]interface{}{"k": "nil"}
		}
		return map[string]interface{}{"k": "opaque", "nil": false}
	case reflect.Chan, reflect.Func, reflect.UnsafePointer:
		return map[string]interface{}{"k": "opaque", "nil": v.IsNil()}
	}
	return map[string]interface{}{"k": "opaque"}
}

func (d *govcDumper) dumpStruct(v reflect.Value, depth int) map[string]interface{} {
	fs := map[string]interface{}{}
	var emb []interface{}
	if v.Type().PkgPath() == "sync" || v.Type().PkgPath() == "time" {
		return map[string]interface{}{"k": "struct", "f": fs, "emb": emb}
	}
	for i := 0; i < v.NumField(); i++ {
		f := v.Type().Field(i)
		fs[f.Name] = d.dump(v.Field(i), depth+1)
		if f.Anonymous {
			emb = append(emb, f.Name)
		}
	}
	return map[string]interface{}{"k": "struct", "f": fs, "emb": emb}
}

func TestGovcReplay(t *testing.T) {
	raw, err := os.ReadFile(os.Getenv("GOVC_REPLAY_IN"))
	if err != nil {
		t.Fatal(err)
	}
	var in struct {
		Params  []interface{}          ` + "`json:\"params\"`" + `
		Objects map[string]interface{} ` + "`json:\"objects\"`" + `
		Files   []string               ` + "`json:\"files\"`" + `
	}
	if err := json.Unmarshal(raw, &in); err != nil {
		t.Fatal(err)
	}
	if cwd := os.Getenv("GOVC_REPLAY_CWD"); cwd != "" {
		os.Chdir(cwd)
	}
	for _, f := range in.Files {
		if dir := filepath.Dir(f); dir != "." {
			os.MkdirAll(dir, 0o755)
		}
		os.WriteFile(f, []byte("x"), 0o644)
	}
	/*SETUP*/
	fn := reflect.ValueOf(TARGET)
	ft := fn.Type()
	b := &govcBuilder{objects: in.Objects, built: map[string]reflect.Value{}}
	args := make([]reflect.Value, ft.NumIn())
	for i := range args {
		args[i] = reflect.New(ft.In(i)).Elem()
		if i < len(in.Params) {
			b.fill(args[i], in.Params[i])
		}
	}
	d := &govcDumper{ids: map[uintptr]int{}, objs: map[string]interface{}{}}
	out := map[string]interface{}{}
	var pre []interface{}
	for _, a := range args {
		pre = append(pre, d.dump(a, 0))
	}
	out["pre"] = pre
	out["pre_objs"] = d.objs
	out["pre_ids"] = len(d.ids)
	var results []reflect.Value
	func() {
		defer func() {
			if r := recover(); r != nil {
				out["panic"] = fmt.Sprint(r)
			}
		}()
		if ft.IsVariadic() {
			results = fn.CallSlice(args)
		} else {
			results = fn.Call(args)
		}
	}()
	d2 := &govcDumper{ids: d.ids, objs: map[string]interface{}{}}
	var post, res []interface{}
	for _, a := range args {
		post = append(post, d2.dump(a, 0))
	}
	for _, r := range results {
		res = append(res, d2.dump(r, 0))
	}
	out["post"] = post
	out["results"] = res
	out["post_objs"] = d2.objs
	enc, _ := json.Marshal(out)
	if err := os.WriteFile(os.Getenv("GOVC_REPLAY_OUT"), enc, 0o644); err != nil {
		t.Fatal(err)
	}
}
`

// sharesProp: does a clause (its own property tags, else those of its function) belong to one of the obligation's properties?
func sharesProp(clauseProps, fnProps, oblProps []string) bool {
	ps := clauseProps
	if len(ps) == 0 {
		ps = fnProps
	}
	if len(oblProps) == 0 {
		return true
	}
	for _, a := range ps {
		for _, b := range oblProps {
			if a == b {
				return true
			}
		}
	}
	return false
}

func specToConcrete(s interface{}) (interface{}, bool) {
	m, ok := s.(map[string]interface{})
	if !ok {
		return nil, false
	}
	switch m["k"] {
	case "string", "bytes":
		v, _ := m["v"].(string)
		return v, true
	case "int":
		switch n := m["v"].(type) {
		case int64:
			return n, true
		case float64:
			return int64(n), true
		}
		return int64(0), true
	case "bool":
		v, _ := m["v"].(bool)
		return v, true
	case "slice":
		es, _ := m["e"].([]interface{})
		out := cseq{}
		for _, e := range es {
			cv, ok := specToConcrete(e)
			if !ok {
				return nil, false
			}
			out = append(out, cv)
		}
		return out, true
	}
	return nil, false
}

func concreteToSpec(v interface{}) (interface{}, bool) {
	switch x := v.(type) {
	case string:
		return map[string]interface{}{"k": "string", "v": x}, true
	case int64:
		return map[string]interface{}{"k": "int", "v": x}, true
	case bool:
		return map[string]interface{}{"k": "bool", "v": x}, true
	case cseq:
		var es []interface{}
		for _, e := range x {
			s, ok := concreteToSpec(e)
			if !ok {
				return nil, false
			}
			es = append(es, s)
		}
		return map[string]interface{}{"k": "slice", "e": es}, true
	}
	return nil, false
}

// readTerms reads the values the model gives to a list of typed terms.
func (m *modelReader) readTerms(ts []Term) []interface{} {
	specs := make([]interface{}, len(ts))
	var lvl []pendItem
	for i, t := range ts {
		i := i
		if t.T == nil {
			switch t.Sort {
			case sString:
				t.T = types.Typ[types.String]
			case sInt:
				t.T = types.Typ[types.Int]
			case sBool:
				t.T = types.Typ[types.Bool]
			}
		}
		if t.T == nil {
			continue
		}
		lvl = append(lvl, m.mk(t.T, t.S, 0, func(s interface{}) { specs[i] = s })...)
	}
	for round := 0; round < 6 && len(lvl) > 0 && m.err == ""; round++ {
		var terms []string
		for _, it := range lvl {
			terms = append(terms, it.term)
		}
		vals := m.eval(terms)
		if vals == nil {
			return nil
		}
		var next []pendItem
		for i, it := range lvl {
			next = append(next, it.on(vals[i])...)
		}
		lvl = next
	}
	if m.err != "" {
		return nil
	}
	return specs
}
