package main

import (
	"fmt"
	"go/types"
	"os"
	"path/filepath"
	"sort"
	"strings"

	"golang.org/x/tools/go/packages"
	"golang.org/x/tools/go/ssa"
	"golang.org/x/tools/go/ssa/ssautil"
)

type Obligation struct {
	Name    string // stable name: <func>.<kind>.<label>[#n]
	Func    string
	Kind    string
	Label   string
	Props   []string
	Clause  string
	Consts  []string
	Asserts []string
	Goal    string
	PathID  int
	Trace   []string
	Known   bool // expected to fail (known finding)
	Canary  bool // must NOT be unsat
	// results
	Result          string // unsat sat unknown timeout error
	Solver          string
	Time            float64
	Output          string
	File            string
	Model           string
	RefuteModel     string
	RefuteSolver    string
	Replayable      bool              // the function may be called on a model's input (replay.go)
	ReplayAssume    []string          // `replay assume` directives evaluated at the obligation's program point (candidate queries only)
	ReplayArgs      map[string][]Term // terms for `replay input` directives, evaluated at the obligation's program point
	CandidateModel  string            // model of the refutation query without its quantified assumptions (input candidate for the replay only)
	CandidateFile   string
	CandidateSolver int
	Disagree        bool
	lemmaIdx        int
	extGround       bool // build the ground query in extended mode
	Wall            float64
	Preset          bool // decided without a solver (structural obligations)
}

type Verifier struct {
	prog           *ssa.Program
	pkgs           []*packages.Package
	spkgs          map[string]*ssa.Package
	allTypesPkgs   []*types.Package
	cs             *ContractSet
	decls          *Decls
	heapSorts      map[string]string
	counter        int
	refuteMode     bool
	obls           []*Obligation
	fnByKey        map[string]*ssa.Function // pkgpath::RelString
	notes          []string
	internalErrs   []string
	pathCounter    int
	funcsDone      map[string]bool
	repoDir        string
	axioms         []axiomText
	rtypeIDs       map[string]int
	inlinableCache map[*ssa.Function]bool
	embeddedPtr    map[string]bool   // heap variables of embedded pointer fields (e.g. FileIP.BaseIP)
	heapIsRef      map[string]string // heap variable -> "field" / "mapval:<keysort>" when its values are references
	constGlobals   map[string]Term   // package-level variables that are initialised with a constant and never assigned again
	lazyGlobal     map[string]string // initial heap symbol -> closedness axiom (included when the symbol is mentioned)
	safetyChecks   bool
}

var repoPkgs = []string{".", "./components", "./cmd/scipipe"}

func loadVerifier(repo string) (*Verifier, error) {
	cfg := &packages.Config{Mode: packages.LoadAllSyntax, Dir: repo, BuildFlags: []string{"-tags=verif"},
		Env: append(os.Environ(), "GOFLAGS=-mod=mod", "GOPROXY=off", "GOSUMDB=off", "GOTOOLCHAIN=local")}
	pkgs, err := packages.Load(cfg, repoPkgs...)
	if err != nil {
		return nil, err
	}
	var errs []string
	packages.Visit(pkgs, nil, func(p *packages.Package) {
		for _, e := range p.Errors {
			errs = append(errs, e.Error())
		}
	})
	if len(errs) > 0 {
		return nil, fmt.Errorf("package load errors: %s", strings.Join(errs, "; "))
	}
	prog, spkgs := ssautil.AllPackages(pkgs, ssa.GlobalDebug)
	prog.Build()
	v := &Verifier{prog: prog, pkgs: pkgs, spkgs: map[string]*ssa.Package{}, decls: newDecls(), heapSorts: map[string]string{},
		fnByKey: map[string]*ssa.Function{}, funcsDone: map[string]bool{}, repoDir: repo, rtypeIDs: map[string]int{}, heapIsRef: map[string]string{}, embeddedPtr: map[string]bool{}, inlinableCache: map[*ssa.Function]bool{}, lazyGlobal: map[string]string{}, constGlobals: map[string]Term{}}
	for i, p := range pkgs {
		if spkgs[i] != nil {
			v.spkgs[p.PkgPath] = spkgs[i]
		}
	}
	seen := map[*types.Package]bool{}
	packages.Visit(pkgs, nil, func(p *packages.Package) {
		if p.Types != nil && !seen[p.Types] {
			seen[p.Types] = true
			v.allTypesPkgs = append(v.allTypesPkgs, p.Types)
		}
	})
	// repo packages first so bare names resolve there
	sort.SliceStable(v.allTypesPkgs, func(i, j int) bool {
		return strings.Contains(v.allTypesPkgs[i].Path(), "scipipe") && !strings.Contains(v.allTypesPkgs[j].Path(), "scipipe")
	})
	for fn := range ssautil.AllFunctions(prog) {
		if fn.Pkg == nil {
			// methods of instantiated/wrapped types may have nil Pkg; skip synthetic
			if fn.Synthetic != "" {
				continue
			}
		}
		v.fnByKey[v.fnKey(fn)] = fn
	}
	v.findConstGlobals()
	// contracts
	v.cs = newContractSet()
	for _, p := range pkgs {
		dir := ""
		if len(p.GoFiles) > 0 {
			dir = filepath.Dir(p.GoFiles[0])
		}
		if dir == "" {
			continue
		}
		matches, _ := filepath.Glob(filepath.Join(dir, "zz_verif_contracts*.go"))
		sort.Strings(matches)
		for _, m := range matches {
			if strings.HasSuffix(m, "_test.go") {
				continue
			}
			if err := v.cs.parseFile(m, p.PkgPath); err != nil {
				return nil, err
			}
		}
	}
	return v, nil
}

// fnKey: "<pkgpath>::<RelString>" for functions with a package, else "::<String>"
func (v *Verifier) fnKey(fn *ssa.Function) string {
	pkg := fnPkg(fn)
	if pkg == nil {
		return "::" + fn.String()
	}
	return pkg.Pkg.Path() + "::" + fn.RelString(pkg.Pkg)
}

func fnPkg(fn *ssa.Function) *ssa.Package {
	if fn.Pkg != nil {
		return fn.Pkg
	}
	if fn.Parent() != nil {
		return fnPkg(fn.Parent())
	}
	return nil
}

func (v *Verifier) isRepoPkg(path string) bool {
	_, ok := v.spkgs[path]
	return ok
}

// contractFor finds the contract of a function: repo functions by package-relative key, others as externs by full name.
func (v *Verifier) contractFor(fn *ssa.Function) *FuncContract {
	pkg := fnPkg(fn)
	if pkg != nil && v.isRepoPkg(pkg.Pkg.Path()) {
		if c, ok := v.cs.Funcs[pkg.Pkg.Path()+"::"+fn.RelString(pkg.Pkg)]; ok {
			return c
		}
		// a repo function may also be referred to from another repo package as extern-style full name
		if c, ok := v.cs.Funcs["::"+fn.String()]; ok {
			return c
		}
		return nil
	}
	if c, ok := v.cs.Funcs["::"+fn.String()]; ok {
		return c
	}
	return nil
}

func (v *Verifier) note(format string, a ...interface{}) {
	s := fmt.Sprintf(format, a...)
	for _, n := range v.notes {
		if n == s {
			return
		}
	}
	v.notes = append(v.notes, s)
}

func (v *Verifier) internalErr(format string, a ...interface{}) {
	v.internalErrs = append(v.internalErrs, fmt.Sprintf(format, a...))
}

// sigParamNames returns receiver+parameter names of a function (from body params or signature).
func sigParamNames(fn *ssa.Function) []string {
	var names []string
	if len(fn.Params) > 0 {
		for _, p := range fn.Params {
			names = append(names, p.Name())
		}
		return names
	}
	sig := fn.Signature
	if sig.Recv() != nil {
		n := sig.Recv().Name()
		if n == "" || n == "_" {
			n = "self"
		}
		names = append(names, n)
	}
	for i := 0; i < sig.Params().Len(); i++ {
		n := sig.Params().At(i).Name()
		if n == "" || n == "_" {
			n = fmt.Sprintf("arg%d", i)
		}
		names = append(names, n)
	}
	return names
}

func sigResultNames(sig *types.Signature) []string {
	var names []string
	n := sig.Results().Len()
	for i := 0; i < n; i++ {
		nm := sig.Results().At(i).Name()
		if nm == "" || nm == "_" {
			if n == 1 {
				nm = "res"
			} else {
				nm = fmt.Sprintf("res%d", i)
			}
		}
		names = append(names, nm)
	}
	return names
}

func (v *Verifier) pkgByPath(path string) *types.Package {
	for _, p := range v.allTypesPkgs {
		if p.Path() == path {
			return p
		}
	}
	return nil
}

// findConstGlobals: a package-level variable of a repo package that is stored to exactly once, in the package
// initialiser, with a constant, is treated as that constant (structural fact, re-established on every run).
func (v *Verifier) findConstGlobals() {
	stores := map[*ssa.Global][]*ssa.Store{}
	escaped := map[*ssa.Global]bool{}
	for fn := range ssautil.AllFunctions(v.prog) {
		p := fnPkg(fn)
		if p == nil || !v.isRepoPkg(p.Pkg.Path()) {
			continue
		}
		for _, b := range fn.Blocks {
			for _, in := range b.Instrs {
				if st, ok := in.(*ssa.Store); ok {
					if g, ok := st.Addr.(*ssa.Global); ok {
						stores[g] = append(stores[g], st)
					}
				}
				// address used other than as load/store target
				for _, op := range in.Operands(nil) {
					if g, ok := (*op).(*ssa.Global); ok {
						switch u := in.(type) {
						case *ssa.Store:
							if u.Addr != g {
								escaped[g] = true
							}
						case *ssa.UnOp, *ssa.DebugRef:
						default:
							escaped[g] = true
						}
					}
				}
			}
		}
	}
	for g, ss := range stores {
		if escaped[g] || len(ss) != 1 || g.Pkg == nil || !v.isRepoPkg(g.Pkg.Pkg.Path()) {
			continue
		}
		if ss[0].Parent().Name() != "init" {
			continue
		}
		c, ok := ss[0].Val.(*ssa.Const)
		if !ok || c.Value == nil {
			continue
		}
		x := &fnExec{v: v}
		func() {
			defer func() { recover() }()
			v.constGlobals["G_"+g.Pkg.Pkg.Name()+"_"+g.Name()] = x.constVal(c)
		}()
	}
}
