package main

import (
	"fmt"
	"go/types"
	"strings"

	"golang.org/x/tools/go/ssa"
)

// Loc is a symbolic address (result of FieldAddr / IndexAddr / Alloc / Global).
type Loc struct {
	Kind  string // "field" "cell" "global" "arrelem" "sliceelem"
	Heap  string // logical heap variable name
	HSort string // sort of the heap variable
	Ref   string // index into the heap array (object ref), "" for globals
	Idx   string // element index for arrelem
	Sort  string // sort of the stored value
	T     types.Type
	Slice Term // for sliceelem
}

type iterState struct {
	Kind    string // "map" "string"
	Map     Term
	MapT    *types.Map
	Visited string // SMT term (Array K Bool)
	KSort   string
}

type closureInfo struct {
	Fn       *ssa.Function
	Bindings []Term
}

type State struct {
	vals         map[ssa.Value]Term
	locs         map[ssa.Value]Loc
	tuples       map[ssa.Value][]Term
	iters        map[ssa.Value]*iterState
	closures     map[string]closureInfo // by SMT term of the closure ref
	heap         map[string]string      // logical -> current SMT symbol
	consts       []string
	asserts      []string
	env          map[string]ssa.Value // source name -> SSA value (value or address)
	envAddr      map[string]bool
	defers       []*ssa.Defer
	inLoop       map[*ssa.BasicBlock]bool
	notes        []string
	pathID       int
	trace        []string
	noClosed     bool
	unknownHavoc bool                                // a call without contract (or `modifies *`) happened: the frame cannot be established
	freshEpochs  map[int]*freshEpoch                 // epochs created by `modifies fresh`: untouched arrays keep their old content at old objects
	prevVals     map[*ssa.BasicBlock]map[string]Term // loop head -> values of named variables right after the havoc
	inline       []*ssa.Call                         // calls of contract-less, loop-free repository functions that are being executed inline
	localChans   []string                            // channels made by this function that do not escape (see chanEscapes)
	epoch        int                                 // >0 after a havoc-all: untouched heap variables are unknown, not initial
}

func newState() *State {
	return &State{
		vals: map[ssa.Value]Term{}, locs: map[ssa.Value]Loc{}, tuples: map[ssa.Value][]Term{},
		iters: map[ssa.Value]*iterState{}, closures: map[string]closureInfo{}, heap: map[string]string{},
		env: map[string]ssa.Value{}, envAddr: map[string]bool{}, inLoop: map[*ssa.BasicBlock]bool{},
		prevVals: map[*ssa.BasicBlock]map[string]Term{}, freshEpochs: map[int]*freshEpoch{},
	}
}

func (s *State) fork() *State {
	n := &State{
		vals: make(map[ssa.Value]Term, len(s.vals)), locs: make(map[ssa.Value]Loc, len(s.locs)),
		tuples: make(map[ssa.Value][]Term, len(s.tuples)), iters: make(map[ssa.Value]*iterState, len(s.iters)),
		closures: make(map[string]closureInfo, len(s.closures)),
		heap:     make(map[string]string, len(s.heap)), env: make(map[string]ssa.Value, len(s.env)),
		envAddr: make(map[string]bool, len(s.envAddr)), inLoop: make(map[*ssa.BasicBlock]bool, len(s.inLoop)),
	}
	for k, v := range s.vals {
		n.vals[k] = v
	}
	for k, v := range s.locs {
		n.locs[k] = v
	}
	for k, v := range s.tuples {
		n.tuples[k] = v
	}
	for k, v := range s.iters {
		c := *v
		n.iters[k] = &c
	}
	for k, v := range s.closures {
		n.closures[k] = v
	}
	for k, v := range s.heap {
		n.heap[k] = v
	}
	for k, v := range s.env {
		n.env[k] = v
	}
	for k, v := range s.envAddr {
		n.envAddr[k] = v
	}
	for k, v := range s.inLoop {
		n.inLoop[k] = v
	}
	n.epoch = s.epoch
	n.unknownHavoc = s.unknownHavoc
	n.freshEpochs = make(map[int]*freshEpoch, len(s.freshEpochs))
	for k, v := range s.freshEpochs {
		n.freshEpochs[k] = v
	}
	n.prevVals = make(map[*ssa.BasicBlock]map[string]Term, len(s.prevVals))
	for k, v := range s.prevVals {
		n.prevVals[k] = v
	}
	n.pathID = s.pathID
	n.localChans = s.localChans[:len(s.localChans):len(s.localChans)]
	n.inline = s.inline[:len(s.inline):len(s.inline)]
	n.consts = s.consts[:len(s.consts):len(s.consts)]
	n.asserts = s.asserts[:len(s.asserts):len(s.asserts)]
	n.defers = s.defers[:len(s.defers):len(s.defers)]
	n.notes = s.notes[:len(s.notes):len(s.notes)]
	n.trace = s.trace[:len(s.trace):len(s.trace)]
	return n
}

func (s *State) assume(f string) {
	if f == "true" || f == "" {
		return
	}
	s.asserts = append(s.asserts, f)
}

func (s *State) declare(name, sort string) {
	s.consts = append(s.consts, "(declare-const "+name+" "+sort+")")
}

// heapGet returns the current SMT symbol for a logical heap variable.
func (s *State) heapGet(v *Verifier, name, sort string) string {
	if sym, ok := s.heap[name]; ok {
		return sym
	}
	if s.epoch == 0 {
		return v.initialHeapSym(name, sort)
	}
	v.registerHeap(name, sort)
	sym := fmt.Sprintf("%s_E%d", smtIdent(name), s.epoch)
	s.declare(sym, sort)
	s.heap[name] = sym
	if fe, ok := s.freshEpochs[s.epoch]; ok {
		// `modifies fresh`: only objects allocated by the callee may differ
		old := fe.snap.get(v, s, name, sort)
		if strings.HasPrefix(sort, "(Array Int ") && !strings.HasPrefix(name, "GH_") && !strings.HasPrefix(name, "G_") {
			s.assume("(forall ((r!e Int)) (=> (< r!e " + fe.oldAlloc + ") (= (select " + sym + " r!e) (select " + old + " r!e))))")
		} else {
			s.assume(eq(sym, old))
		}
	}
	s.closedAssume(v, name, sym)
	return sym
}

// closedFormula: heap closedness for a reference-valued heap variable: allocated objects refer to allocated objects or nil.
func (v *Verifier) closedFormula(name, sym, alloc string, mdSym func(string) string) string {
	if strings.HasPrefix(name, "MD_") {
		// the nil map has no keys
		hs := v.heapSorts[name]
		_, inner := splitArraySort(hs)
		ks, _ := splitArraySort(inner)
		return "(forall ((k!z " + ks + ")) (not (select (select " + sym + " 0) k!z)))"
	}
	kind := v.heapIsRef[name]
	if kind == "field" {
		return "(forall ((r!c Int)) (=> (and (> r!c 0) (< r!c " + alloc + ")) (and (>= (select " + sym + " r!c) 0) (< (select " + sym + " r!c) " + alloc + "))))"
	}
	if strings.HasPrefix(kind, "mapval:") {
		ks := strings.TrimPrefix(kind, "mapval:")
		md := mdSym("MD_" + strings.TrimPrefix(name, "MV_"))
		return "(forall ((m!c Int) (k!c " + ks + ")) (=> (and (> m!c 0) (< m!c " + alloc + ") (select (select " + md + " m!c) k!c)) (and (>= (select (select " + sym + " m!c) k!c) 0) (< (select (select " + sym + " m!c) k!c) " + alloc + "))))"
	}
	return ""
}

// closedAssume adds the (lazily included) closedness fact for a freshly havocked heap symbol.
func (s *State) closedAssume(v *Verifier, name, sym string) {
	if v.heapIsRef[name] == "" && !strings.HasPrefix(name, "MD_") {
		return
	}
	alloc := s.heapGet(v, "$alloc", sInt)
	f := v.closedFormula(name, sym, alloc, func(md string) string {
		return s.heapGet(v, md, v.heapSorts[md])
	})
	if f != "" {
		s.asserts = append(s.asserts, ";;closed "+sym+"\n"+f)
	}
}

type freshEpoch struct {
	snap     *heapSnap
	oldAlloc string
}

type heapSnap struct {
	heap  map[string]string
	epoch int
}

func (s *State) snapshot() *heapSnap {
	m := make(map[string]string, len(s.heap))
	for k, v := range s.heap {
		m[k] = v
	}
	return &heapSnap{heap: m, epoch: s.epoch}
}

// get returns the symbol a heap variable had at snapshot time; symbols first needed after the snapshot are declared in cur.
// (Snapshots are shared between forked states, so nothing is cached in the snapshot.)
func (h *heapSnap) get(v *Verifier, cur *State, name, sort string) string {
	if sym, ok := h.heap[name]; ok {
		return sym
	}
	if h.epoch == 0 {
		return v.initialHeapSym(name, sort)
	}
	v.registerHeap(name, sort)
	sym := fmt.Sprintf("%s_E%d", smtIdent(name), h.epoch)
	decl := "(declare-const " + sym + " " + sort + ")"
	found := false
	for _, c := range cur.consts {
		if c == decl {
			found = true
			break
		}
	}
	if !found {
		cur.declare(sym, sort)
		if fe, ok := cur.freshEpochs[h.epoch]; ok {
			old := fe.snap.get(v, cur, name, sort)
			if strings.HasPrefix(sort, "(Array Int ") && !strings.HasPrefix(name, "GH_") && !strings.HasPrefix(name, "G_") {
				cur.assume("(forall ((r!e Int)) (=> (< r!e " + fe.oldAlloc + ") (= (select " + sym + " r!e) (select " + old + " r!e))))")
			} else {
				cur.assume(eq(sym, old))
			}
		}
	}
	// if the current state is still in the same epoch and has not touched the variable, it has the same value
	if cur.epoch == h.epoch {
		if _, touched := cur.heap[name]; !touched {
			cur.heap[name] = sym
		}
	}
	return sym
}

// heapHavoc gives the heap variable a fresh unconstrained version and returns the new symbol.
func (s *State) heapHavoc(v *Verifier, name, sort string) string {
	v.registerHeap(name, sort)
	sym := v.freshSym(smtIdent(name))
	s.declare(sym, sort)
	s.heap[name] = sym
	if !s.noClosed {
		s.closedAssume(v, name, sym)
	}
	return sym
}

// heapSet defines a new version equal to the given term.
func (s *State) heapSet(v *Verifier, name, sort, term string) string {
	s.noClosed = true
	sym := s.heapHavoc(v, name, sort)
	s.noClosed = false
	s.assume(eq(sym, term))
	return sym
}

func smtIdent(s string) string {
	var sb strings.Builder
	for _, c := range s {
		switch {
		case c == '$':
			sb.WriteByte('S')
		case c == '*':
			sb.WriteByte('P')
		case (c >= 'a' && c <= 'z') || (c >= 'A' && c <= 'Z') || (c >= '0' && c <= '9') || c == '_':
			sb.WriteRune(c)
		case c == '(' || c == ')' || c == '{' || c == '}':
		default:
			sb.WriteByte('_')
		}
	}
	return sb.String()
}

func (v *Verifier) initialHeapSym(name, sort string) string {
	v.registerHeap(name, sort)
	sym := smtIdent(name) + "_0"
	v.decls.add("heap0:"+name, "(declare-const "+sym+" "+sort+")")
	if _, done := v.lazyGlobal[sym]; !done && (v.heapIsRef[name] != "" || strings.HasPrefix(name, "MD_")) {
		v.lazyGlobal[sym] = ""
		v.lazyGlobal[sym] = v.closedFormula(name, sym, smtIdent("$alloc")+"_0", func(md string) string {
			return v.initialHeapSym(md, v.heapSorts[md])
		})
	}
	return sym
}

func (v *Verifier) registerHeap(name, sort string) {
	if old, ok := v.heapSorts[name]; ok {
		if old != sort {
			panic(fmt.Sprintf("heap variable %s used with sorts %s and %s", name, old, sort))
		}
		return
	}
	v.heapSorts[name] = sort
}

func (v *Verifier) freshSym(base string) string {
	v.counter++
	return fmt.Sprintf("%s_%d", base, v.counter)
}

// fresh declares a fresh constant in the state.
func (s *State) fresh(v *Verifier, base, sort string) string {
	sym := v.freshSym(smtIdent(base))
	s.declare(sym, sort)
	return sym
}
