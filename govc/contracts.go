package main

// Contract files: /repo/**/zz_verif_contracts.go, build tag verif, comments only.
// Every contract line starts with "//@". A line "//@ | text" continues the previous clause.

import (
	"bufio"
	"fmt"
	"go/types"
	"os"
	"regexp"
	"strings"
)

type Clause struct {
	Kind   string // requires ensures invariant effects assert lemma axiom
	Label  string
	Props  []string // property tags (empty = inherits function props)
	Src    string
	E      Expr
	Loop   int // for invariants
	Line   int
	File   string
	Stream bool
	Target string
}

type ModTarget struct {
	Src string
	// one of:
	//  "x.f"      single location (expression x, field f)
	//  "T.f"      whole field array of struct T
	//  "ghost"    ghost var name
	//  "m[*]"     contents of the map expression m
	//  "*"        everything
}

type FuncContract struct {
	Key           string // e.g. "(*FileIP).TempPath", "strings.ReplaceAll"
	Pkg           string // package path the contract file belongs to
	Extern        bool   // assumed, never verified
	Iface         bool   // contract of an interface method
	ParamNames    []string
	ResNames      []string
	Props         []string
	Requires      []*Clause
	Ensures       []*Clause
	AtCall        []*Clause // assertions before calls of a named callee (Clause.Target = callee name)
	AssumeCall    []*Clause // explicit assumptions made before calls of a named callee (listed as assumptions)
	AtMakeChan    []*Clause // definitional assumptions about a freshly made channel ($ch)
	AtGo          []*Clause // assertions before go statements of a named callee
	AtSend        []*Clause // assertions before every channel send in the function
	Assumes       []*Clause // assumed at call sites, not checked against the body (listed as assumptions)
	Invariants    []*Clause
	Steps         []*Clause // relation between one loop-head state (prev(x)) and the next
	Exhaustive    []*Clause // structural: the loop is left only through its head (no break / return / goto out of the body)
	Effects       []*Clause // crash invariants
	OnSpawn       []*Clause // ensures assumed by the spawner at `go f()`
	Modifies      []string
	GhostSets     []GhostSet // ghost assignments executed at every return (before the postconditions are checked)
	Mutates       []string   // slice parameters whose backing array the callee changes in place (externs only)
	SpawnMods     []string
	NoReturn      bool
	Determ        string // "structural" (checked by scan) or "by-contract <reason>" (trusted) or ""
	DetermProps   []string
	Pure          bool
	Bounded       string
	BoundedChecks []*BoundedCheck // bounded stand-ins: exhaustive runs of the real function over a stated finite domain (never counted as proved)
	Trusted       bool // body not verified although it exists (reason required)
	TrustedWhy    string
	TrustedFrame  bool // modifies clause assumed, body otherwise verified
	Line          int
	File          string
	Replay        []string  // replay template lines
	ReplayChecks  []*Clause // oracles evaluated on the real code during a replay only
	ReplayInputs  []*ReplayInput
	AtReturn      []*Clause // obligations at returns over local variables
	ReplayAssumes []Expr
	Used          bool
	ifaceRecv     types.Type
}

type GhostSet struct {
	Var string
	Src string
	E   Expr
}

type GhostVar struct {
	Name string
	Type string
}

type GhostFunc struct {
	Name    string
	Params  []Binder
	Result  string
	Interp  string // SMT text with $name placeholders (refutation mode), "" if none
	Def     Expr   // for `define`
	DefSrc  string
	Line    int
	File    string
	PkgPath string
}

type Axiom struct {
	Name    string
	Src     string
	E       Expr
	Lemma   bool
	Props   []string
	PkgPath string
	File    string
	Line    int
}

type ChanInv struct {
	TypeText string
	Label    string
	Props    []string
	Src      string
	E        Expr
	PkgPath  string
}

type BoundedCheck struct {
	Label, File, Test, Bound string
	Props                    []string
}

type ReplayInput struct {
	Param string
	Call  *ECall
}

type TypeShape struct {
	TypeText, Label, Kind, PkgPath string
	Props                          []string
}

type ContractSet struct {
	TypeShapes []*TypeShape
	ChanInvs   []*ChanInv
	Funcs      map[string]*FuncContract // key: pkgpath + "::" + Key  (externs/ifaces: "::" + Key)
	GhostVars  map[string]*GhostVar
	GhostFuncs map[string]*GhostFunc
	Axioms     []*Axiom
	Files      []string
	Order      []*FuncContract
}

var labelRe = regexp.MustCompile(`^([A-Za-z0-9_.\-]+)(\[[A-Z0-9,]+\])?:\s+(.*)$`)

func splitLabel(s string) (label string, props []string, rest string) {
	m := labelRe.FindStringSubmatch(s)
	if m == nil {
		return "", nil, s
	}
	// guard: "forall x int :: ..." would not match because of the space before ::
	label = m[1]
	if m[2] != "" {
		props = strings.Split(strings.Trim(m[2], "[]"), ",")
	}
	return label, props, m[3]
}

func parseBinders(s string) ([]Binder, error) {
	s = strings.TrimSpace(s)
	if s == "" {
		return nil, nil
	}
	var out []Binder
	// split on commas at depth 0
	depth := 0
	start := 0
	var parts []string
	for i := 0; i < len(s); i++ {
		switch s[i] {
		case '[', '(':
			depth++
		case ']', ')':
			depth--
		case ',':
			if depth == 0 {
				parts = append(parts, s[start:i])
				start = i + 1
			}
		}
	}
	parts = append(parts, s[start:])
	var pending []string
	for _, p := range parts {
		p = strings.TrimSpace(p)
		f := strings.Fields(p)
		if len(f) == 1 {
			pending = append(pending, f[0])
			continue
		}
		if len(f) < 2 {
			return nil, fmt.Errorf("bad binder %q", p)
		}
		ty := strings.Join(f[1:], "")
		for _, n := range pending {
			out = append(out, Binder{n, ty})
		}
		pending = nil
		out = append(out, Binder{f[0], ty})
	}
	for _, n := range pending {
		out = append(out, Binder{n, ""})
	}
	return out, nil
}

var funcHdrRe = regexp.MustCompile(`^(\S.*?)\s*\(([^()]*)\)\s*(?:\(([^()]*)\)|(\S+))?\s*$`)

// parse header like: "(*FileIP).TempPath() (res)" ; the key itself may contain parentheses.
func parseFuncHeader(s string) (key string, params, results []string, err error) {
	s = strings.TrimSpace(s)
	// find the parameter list: the last '(' ... ')' group that is followed optionally by a result group
	// Strategy: strip optional trailing result group, then the param group.
	rest := s
	var resStr string
	hasRes := false
	if strings.HasSuffix(rest, ")") {
		// could be results or params
		i := matchingOpen(rest, len(rest)-1)
		if i < 0 {
			return "", nil, nil, fmt.Errorf("unbalanced parentheses in %q", s)
		}
		before := strings.TrimSpace(rest[:i])
		if strings.HasSuffix(before, ")") {
			// two groups: before ends with params
			resStr = rest[i+1 : len(rest)-1]
			hasRes = true
			rest = before
		}
	} else {
		// trailing single result name
		j := strings.LastIndex(rest, ")")
		if j < 0 {
			return "", nil, nil, fmt.Errorf("no parameter list in %q", s)
		}
		resStr = strings.TrimSpace(rest[j+1:])
		hasRes = resStr != ""
		rest = strings.TrimSpace(rest[:j+1])
	}
	i := matchingOpen(rest, len(rest)-1)
	if i < 0 {
		return "", nil, nil, fmt.Errorf("unbalanced parentheses in %q", s)
	}
	key = strings.TrimSpace(rest[:i])
	pstr := rest[i+1 : len(rest)-1]
	for _, p := range strings.Split(pstr, ",") {
		p = strings.TrimSpace(p)
		if p != "" {
			params = append(params, strings.Fields(p)[0])
		}
	}
	if hasRes {
		for _, p := range strings.Split(resStr, ",") {
			p = strings.TrimSpace(p)
			if p != "" {
				results = append(results, strings.Fields(p)[0])
			}
		}
	}
	return key, params, results, nil
}

func matchingOpen(s string, closeIdx int) int {
	depth := 0
	for i := closeIdx; i >= 0; i-- {
		switch s[i] {
		case ')':
			depth++
		case '(':
			depth--
			if depth == 0 {
				return i
			}
		}
	}
	return -1
}

func (cs *ContractSet) parseFile(path, pkgPath string) error {
	f, err := os.Open(path)
	if err != nil {
		return err
	}
	defer f.Close()
	cs.Files = append(cs.Files, path)
	sc := bufio.NewScanner(f)
	sc.Buffer(make([]byte, 1<<20), 1<<20)
	type rawLine struct {
		text string
		line int
	}
	var lines []rawLine
	ln := 0
	for sc.Scan() {
		ln++
		t := sc.Text()
		tt := strings.TrimSpace(t)
		if !strings.HasPrefix(tt, "//@") {
			continue
		}
		body := strings.TrimPrefix(tt, "//@")
		if strings.HasPrefix(strings.TrimSpace(body), "|") {
			if len(lines) == 0 {
				return fmt.Errorf("%s:%d: continuation without clause", path, ln)
			}
			cont := strings.TrimSpace(strings.TrimPrefix(strings.TrimSpace(body), "|"))
			lines[len(lines)-1].text += " " + cont
			continue
		}
		lines = append(lines, rawLine{strings.TrimSpace(body), ln})
	}
	var cur *FuncContract
	for _, rl := range lines {
		t := rl.text
		if t == "" || strings.HasPrefix(t, "#") {
			continue
		}
		word := t
		rest := ""
		if i := strings.IndexAny(t, " \t"); i >= 0 {
			word, rest = t[:i], strings.TrimSpace(t[i+1:])
		}
		errf := func(format string, a ...interface{}) error {
			return fmt.Errorf("%s:%d: %s", path, rl.line, fmt.Sprintf(format, a...))
		}
		mkClause := func(kind, src string) (*Clause, error) {
			label, props, body := splitLabel(src)
			e, err := parseExpr(body)
			if err != nil {
				return nil, errf("%v", err)
			}
			return &Clause{Kind: kind, Label: label, Props: props, Src: body, E: e, Line: rl.line, File: path}, nil
		}
		switch word {
		case "ghost":
			if cur != nil && strings.HasPrefix(rest, "set ") {
				body := strings.TrimSpace(rest[4:])
				i := strings.Index(body, "=")
				if i < 0 {
					return errf("ghost set needs '='")
				}
				e, err := parseExpr(strings.TrimSpace(body[i+1:]))
				if err != nil {
					return errf("%v", err)
				}
				cur.GhostSets = append(cur.GhostSets, GhostSet{Var: strings.TrimSpace(body[:i]), Src: body, E: e})
				continue
			}
			cur = nil
			if strings.HasPrefix(rest, "var ") {
				fs := strings.Fields(rest[4:])
				if len(fs) < 2 {
					return errf("bad ghost var")
				}
				cs.GhostVars[fs[0]] = &GhostVar{fs[0], strings.Join(fs[1:], "")}
			} else if strings.HasPrefix(rest, "func ") {
				gf, err := parseGhostFuncHeader(rest[5:])
				if err != nil {
					return errf("%v", err)
				}
				gf.Line, gf.File, gf.PkgPath = rl.line, path, pkgPath
				cs.GhostFuncs[gf.Name] = gf
			} else {
				return errf("bad ghost declaration")
			}
		case "define":
			cur = nil
			i := strings.Index(rest, " = ")
			if i < 0 {
				return errf("define needs ' = '")
			}
			gf, err := parseGhostFuncHeader(rest[:i])
			if err != nil {
				return errf("%v", err)
			}
			e, err := parseExpr(rest[i+3:])
			if err != nil {
				return errf("%v", err)
			}
			gf.Def, gf.DefSrc = e, rest[i+3:]
			gf.Line, gf.File, gf.PkgPath = rl.line, path, pkgPath
			cs.GhostFuncs[gf.Name] = gf
		case "chaninv":
			// chaninv <elem type> label[props]: expr over $v
			cur = nil
			i := strings.Index(rest, " ")
			if i < 0 {
				return errf("expected: chaninv <type> label: expr")
			}
			label, props, body := splitLabel(strings.TrimSpace(rest[i+1:]))
			if label == "" {
				return errf("chaninv needs a label")
			}
			e, err := parseExpr(body)
			if err != nil {
				return errf("%v", err)
			}
			cs.ChanInvs = append(cs.ChanInvs, &ChanInv{TypeText: rest[:i], Label: label, Props: props, Src: body, E: e, PkgPath: pkgPath})
		case "typeshape":
			// typeshape <Type> label[props]: json-roundtrip   (structural obligation over a type definition)
			cur = nil
			i := strings.Index(rest, " ")
			if i < 0 {
				return errf("expected: typeshape <type> label: kind")
			}
			label, props, body := splitLabel(strings.TrimSpace(rest[i+1:]))
			if label == "" {
				return errf("typeshape needs a label")
			}
			cs.TypeShapes = append(cs.TypeShapes, &TypeShape{TypeText: rest[:i], Label: label, Props: props, Kind: strings.TrimSpace(body), PkgPath: pkgPath})
		case "axiom", "lemma":
			cur = nil
			label, props, body := splitLabel(rest)
			if label == "" {
				return errf("%s needs a label", word)
			}
			e, err := parseExpr(body)
			if err != nil {
				return errf("%v", err)
			}
			cs.Axioms = append(cs.Axioms, &Axiom{Name: label, Src: body, E: e, Lemma: word == "lemma", Props: props, PkgPath: pkgPath, File: path, Line: rl.line})
		case "func", "extern", "iface":
			key, ps, rs, err := parseFuncHeader(rest)
			if err != nil {
				return errf("%v", err)
			}
			cur = &FuncContract{Key: key, Pkg: pkgPath, ParamNames: ps, ResNames: rs, Extern: word == "extern", Iface: word == "iface", Line: rl.line, File: path}
			k := pkgPath + "::" + key
			if cur.Extern || cur.Iface {
				k = "::" + key
			}
			if _, dup := cs.Funcs[k]; dup {
				return errf("duplicate contract for %s", key)
			}
			cs.Funcs[k] = cur
			cs.Order = append(cs.Order, cur)
		default:
			if cur == nil {
				return errf("clause %q outside a func block", word)
			}
			switch word {
			case "props":
				cur.Props = strings.Fields(rest)
			case "requires":
				c, err := mkClause("requires", rest)
				if err != nil {
					return err
				}
				cur.Requires = append(cur.Requires, c)
			case "ensures":
				c, err := mkClause("ensures", rest)
				if err != nil {
					return err
				}
				cur.Ensures = append(cur.Ensures, c)
			case "atcall":
				fs := strings.SplitN(rest, " ", 2)
				if len(fs) < 2 {
					return errf("expected: atcall <callee> label: expr")
				}
				c, err := mkClause("atcall", strings.TrimSpace(fs[1]))
				if err != nil {
					return err
				}
				c.Target = fs[0]
				cur.AtCall = append(cur.AtCall, c)
			case "atgo":
				fs := strings.SplitN(rest, " ", 2)
				if len(fs) < 2 {
					return errf("expected: atgo <callee> label: expr")
				}
				c, err := mkClause("atgo", strings.TrimSpace(fs[1]))
				if err != nil {
					return err
				}
				c.Target = fs[0]
				cur.AtGo = append(cur.AtGo, c)
			case "assumecall":
				fs := strings.SplitN(rest, " ", 2)
				if len(fs) < 2 {
					return errf("expected: assumecall <callee> label: expr")
				}
				c, err := mkClause("assumecall", strings.TrimSpace(fs[1]))
				if err != nil {
					return err
				}
				c.Target = fs[0]
				cur.AssumeCall = append(cur.AssumeCall, c)
			case "atmakechan":
				c, err := mkClause("atmakechan", rest)
				if err != nil {
					return err
				}
				cur.AtMakeChan = append(cur.AtMakeChan, c)
			case "atsend":
				c, err := mkClause("atsend", rest)
				if err != nil {
					return err
				}
				cur.AtSend = append(cur.AtSend, c)
			case "atreturn":
				c, err := mkClause("atreturn", rest)
				if err != nil {
					return err
				}
				cur.AtReturn = append(cur.AtReturn, c)
			case "assumes":
				c, err := mkClause("assumes", rest)
				if err != nil {
					return err
				}
				cur.Assumes = append(cur.Assumes, c)
			case "effects":
				c, err := mkClause("effects", rest)
				if err != nil {
					return err
				}
				cur.Effects = append(cur.Effects, c)
			case "onspawn":
				if strings.HasPrefix(rest, "modifies ") {
					for _, m := range strings.Split(rest[9:], ",") {
						cur.SpawnMods = append(cur.SpawnMods, strings.TrimSpace(m))
					}
				} else if strings.HasPrefix(rest, "ensures ") {
					c, err := mkClause("onspawn", rest[8:])
					if err != nil {
						return err
					}
					cur.OnSpawn = append(cur.OnSpawn, c)
				} else {
					return errf("bad onspawn clause")
				}
			case "modifies":
				for _, m := range strings.Split(rest, ",") {
					m = strings.TrimSpace(m)
					if m != "" {
						cur.Modifies = append(cur.Modifies, m)
					}
				}
			case "mutates":
				for _, m := range strings.Split(rest, ",") {
					if m = strings.TrimSpace(m); m != "" {
						cur.Mutates = append(cur.Mutates, m)
					}
				}
			case "deterministic":
				lab, props, body := splitLabel(rest)
				_ = lab
				cur.Determ = strings.TrimSpace(body)
				if cur.Determ == "" {
					cur.Determ = "structural"
				}
				cur.DetermProps = props
			case "noreturn":
				cur.NoReturn = true
			case "pure":
				cur.Pure = true
			case "trusted-frame":
				// the body is verified, but its modifies clause is assumed (stated reason), not checked
				cur.TrustedFrame = true
				cur.TrustedWhy = rest
			case "trusted":
				cur.Trusted = true
				cur.TrustedWhy = rest
			case "bounded":
				// bounded LABEL[props]: <test file under /verif/bounded> <TestName> :: <stated bound>
				label, props, body := splitLabel(rest)
				if label == "" {
					return errf("bounded needs a label")
				}
				parts := strings.SplitN(body, "::", 2)
				fs := strings.Fields(parts[0])
				if len(fs) != 2 || len(parts) != 2 {
					return errf("expected: bounded label: <file> <TestName> :: <bound>")
				}
				cur.BoundedChecks = append(cur.BoundedChecks, &BoundedCheck{Label: label, Props: props, File: fs[0], Test: fs[1], Bound: strings.TrimSpace(parts[1])})
			case "replay":
				cur.Replay = append(cur.Replay, rest)
				if strings.HasPrefix(rest, "assume ") {
					// replay assume EXPR: narrows the search for a candidate input (never used in a proof)
					e, err := parseExpr(strings.TrimSpace(rest[7:]))
					if err != nil {
						return errf("replay assume: %v", err)
					}
					cur.ReplayAssumes = append(cur.ReplayAssumes, e)
				}
				if strings.HasPrefix(rest, "input ") {
					// replay input PARAM = f(expr, ...): the parameter's value in a replay is computed (in Go) from values
					// that the model gives to the expressions at the point of the failed obligation
					eqi := strings.Index(rest, "=")
					if eqi < 0 {
						return errf("expected: replay input PARAM = f(args)")
					}
					pn := strings.TrimSpace(rest[6:eqi])
					e, err := parseExpr(strings.TrimSpace(rest[eqi+1:]))
					if err != nil {
						return errf("replay input: %v", err)
					}
					call, ok := e.(*ECall)
					if !ok {
						return errf("replay input needs a function application")
					}
					cur.ReplayInputs = append(cur.ReplayInputs, &ReplayInput{Param: pn, Call: call})
				}
			case "replaycheck":
				// evaluated only on the real code during a replay (a test oracle for confirming a failing input); never an obligation, never an assumption
				c, err := mkClause("replaycheck", rest)
				if err != nil {
					return err
				}
				cur.ReplayChecks = append(cur.ReplayChecks, c)
			case "loop":
				// loop N invariant label: expr
				fs := strings.SplitN(rest, " ", 3)
				if len(fs) < 3 || (fs[1] != "invariant" && fs[1] != "step" && fs[1] != "exhaustive") {
					return errf("expected: loop N invariant|step|exhaustive label: expr")
				}
				var n int
				if _, err := fmt.Sscanf(fs[0], "%d", &n); err != nil {
					return errf("bad loop ordinal %q", fs[0])
				}
				c, err := mkClause("invariant", fs[2])
				if err != nil {
					return err
				}
				c.Loop = n
				if fs[1] == "exhaustive" {
					// structural: the loop is left only through its own condition / exhausted range (no break, return or goto out of
					// the body); the expression is not used
					c.Kind = "exhaustive"
					cur.Exhaustive = append(cur.Exhaustive, c)
				} else if fs[1] == "step" {
					c.Kind = "step"
					cur.Steps = append(cur.Steps, c)
				} else {
					cur.Invariants = append(cur.Invariants, c)
				}
			default:
				return errf("unknown clause %q", word)
			}
		}
	}
	return nil
}

func parseGhostFuncHeader(s string) (*GhostFunc, error) {
	s = strings.TrimSpace(s)
	interp := ""
	if i := strings.Index(s, " interp "); i >= 0 {
		interp = strings.TrimSpace(s[i+8:])
		interp = strings.Trim(interp, "`")
		s = strings.TrimSpace(s[:i])
	}
	i := strings.Index(s, "(")
	j := matchingClose(s, i)
	if i < 0 || j < 0 {
		return nil, fmt.Errorf("bad ghost func header %q", s)
	}
	name := strings.TrimSpace(s[:i])
	bs, err := parseBinders(s[i+1 : j])
	if err != nil {
		return nil, err
	}
	res := strings.Join(strings.Fields(s[j+1:]), "")
	if res == "" {
		return nil, fmt.Errorf("ghost func %s needs a result type", name)
	}
	return &GhostFunc{Name: name, Params: bs, Result: res, Interp: interp}, nil
}

func matchingClose(s string, open int) int {
	if open < 0 {
		return -1
	}
	depth := 0
	for i := open; i < len(s); i++ {
		switch s[i] {
		case '(':
			depth++
		case ')':
			depth--
			if depth == 0 {
				return i
			}
		}
	}
	return -1
}

func newContractSet() *ContractSet {
	return &ContractSet{
		Funcs:      map[string]*FuncContract{},
		GhostVars:  map[string]*GhostVar{},
		GhostFuncs: map[string]*GhostFunc{},
	}
}
