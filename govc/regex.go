package main

// Translation of the small regular-expression subset used by scipipe to SMT-LIB regular expressions.
// Supported: literals, escapes (\/ \. \- \_ \\ etc.), '.', classes [...] and [^...] with ranges, groups (...),
// alternation |, postfix * + ?, anchors ^ (first) and $ (last). Capture groups are treated as plain groups.

import (
	"fmt"
	"strings"
)

type reParser struct {
	s string
	p int
}

// regexToSMT returns the SMT regex for the pattern body and whether it is anchored at start / end.
func regexToSMT(pat string) (re string, anchorStart, anchorEnd bool, err error) {
	defer func() {
		if r := recover(); r != nil {
			if e, ok := r.(reErr); ok {
				err = fmt.Errorf("regex %q: %s", pat, string(e))
				return
			}
			panic(r)
		}
	}()
	body := pat
	if strings.HasPrefix(body, "^") {
		anchorStart = true
		body = body[1:]
	}
	if strings.HasSuffix(body, "$") && !strings.HasSuffix(body, "\\$") {
		anchorEnd = true
		body = body[:len(body)-1]
	}
	ps := &reParser{s: body}
	re = ps.alt()
	if ps.p != len(ps.s) {
		panic(reErr(fmt.Sprintf("unexpected %q at %d", ps.s[ps.p], ps.p)))
	}
	return
}

type reErr string

func (ps *reParser) more() bool { return ps.p < len(ps.s) }

func (ps *reParser) alt() string {
	parts := []string{ps.concat()}
	for ps.more() && ps.s[ps.p] == '|' {
		ps.p++
		parts = append(parts, ps.concat())
	}
	if len(parts) == 1 {
		return parts[0]
	}
	return "(re.union " + strings.Join(parts, " ") + ")"
}

func (ps *reParser) concat() string {
	var parts []string
	for ps.more() && ps.s[ps.p] != '|' && ps.s[ps.p] != ')' {
		parts = append(parts, ps.repeat())
	}
	switch len(parts) {
	case 0:
		return "(str.to_re \"\")"
	case 1:
		return parts[0]
	}
	return "(re.++ " + strings.Join(parts, " ") + ")"
}

func (ps *reParser) repeat() string {
	a := ps.atom()
	for ps.more() {
		switch ps.s[ps.p] {
		case '*':
			a = "(re.* " + a + ")"
		case '+':
			a = "(re.+ " + a + ")"
		case '?':
			a = "(re.opt " + a + ")"
		default:
			return a
		}
		ps.p++
	}
	return a
}

func reLit(c byte) string { return "(str.to_re " + smtString(string([]byte{c})) + ")" }

func (ps *reParser) atom() string {
	c := ps.s[ps.p]
	switch c {
	case '(':
		ps.p++
		if strings.HasPrefix(ps.s[ps.p:], "?:") {
			ps.p += 2
		}
		a := ps.alt()
		if !ps.more() || ps.s[ps.p] != ')' {
			panic(reErr("missing )"))
		}
		ps.p++
		return a
	case '[':
		return ps.class()
	case '.':
		ps.p++
		// Go's '.' does not match newline; values here never contain newlines except explicitly
		return "(re.diff re.allchar (str.to_re \"\\u{a}\"))"
	case '\\':
		ps.p++
		if !ps.more() {
			panic(reErr("trailing backslash"))
		}
		e := ps.s[ps.p]
		ps.p++
		switch e {
		case 'd':
			return "(re.range \"0\" \"9\")"
		case 'w':
			return "(re.union (re.range \"0\" \"9\") (re.range \"a\" \"z\") (re.range \"A\" \"Z\") (str.to_re \"_\"))"
		case 's':
			return "(re.union (str.to_re \" \") (str.to_re \"\\u{9}\") (str.to_re \"\\u{a}\") (str.to_re \"\\u{d}\"))"
		case 'n':
			return "(str.to_re \"\\u{a}\")"
		case 't':
			return "(str.to_re \"\\u{9}\")"
		}
		if (e >= 'a' && e <= 'z') || (e >= 'A' && e <= 'Z') || (e >= '0' && e <= '9') {
			panic(reErr(fmt.Sprintf("unsupported escape \\%c", e)))
		}
		return reLit(e)
	case '*', '+', '?', '{', '^', '$':
		if c == '{' {
			// Go treats a '{' that does not start a valid repetition as a literal
			ps.p++
			return reLit(c)
		}
		panic(reErr(fmt.Sprintf("unexpected %q", c)))
	}
	ps.p++
	return reLit(c)
}

func (ps *reParser) class() string {
	ps.p++ // [
	neg := false
	if ps.more() && ps.s[ps.p] == '^' {
		neg = true
		ps.p++
	}
	var parts []string
	first := true
	for {
		if !ps.more() {
			panic(reErr("missing ]"))
		}
		c := ps.s[ps.p]
		if c == ']' && !first {
			ps.p++
			break
		}
		first = false
		lo := ps.classChar()
		if ps.p+1 < len(ps.s) && ps.s[ps.p] == '-' && ps.s[ps.p+1] != ']' {
			ps.p++
			hi := ps.classChar()
			parts = append(parts, "(re.range "+smtString(string([]byte{lo}))+" "+smtString(string([]byte{hi}))+")")
		} else {
			parts = append(parts, reLit(lo))
		}
	}
	var u string
	if len(parts) == 1 {
		u = parts[0]
	} else {
		u = "(re.union " + strings.Join(parts, " ") + ")"
	}
	if neg {
		return "(re.diff re.allchar " + u + ")"
	}
	return u
}

func (ps *reParser) classChar() byte {
	c := ps.s[ps.p]
	ps.p++
	if c == '\\' {
		if !ps.more() {
			panic(reErr("trailing backslash in class"))
		}
		e := ps.s[ps.p]
		ps.p++
		switch e {
		case 'n':
			return '\n'
		case 't':
			return '\t'
		}
		return e
	}
	return c
}

// reMatchTerm: Go's (*Regexp).MatchString(s) for pattern pat (unanchored unless ^/$ given)
func reMatchTerm(s, pat string) (string, error) {
	re, as, ae, err := regexToSMT(pat)
	if err != nil {
		return "", err
	}
	parts := []string{}
	if !as {
		parts = append(parts, "re.all")
	}
	parts = append(parts, re)
	if !ae {
		parts = append(parts, "re.all")
	}
	r := parts[0]
	if len(parts) > 1 {
		r = "(re.++ " + strings.Join(parts, " ") + ")"
	}
	return "(str.in_re " + s + " " + r + ")", nil
}

// reFullTerm: s as a whole is in the language of pat (anchors ignored)
func reFullTerm(s, pat string) (string, error) {
	re, _, _, err := regexToSMT(pat)
	if err != nil {
		return "", err
	}
	return "(str.in_re " + s + " " + re + ")", nil
}
