package main

// Symbolic executor over go/ssa: generates named proof obligations for one function under contract.

import (
	"fmt"
	"go/ast"
	"go/constant"
	"go/token"
	"go/types"
	"sort"
	"strings"

	"golang.org/x/tools/go/ssa"
)

type loopInfo struct {
	head    *ssa.BasicBlock
	body    map[*ssa.BasicBlock]bool
	ordinal int
}

type fnExec struct {
	v             *Verifier
	fn            *ssa.Function
	c             *FuncContract
	pkg           *types.Package
	loops         map[*ssa.BasicBlock]*loopInfo
	params        map[string]Term // contract-visible names of parameters (and free variables)
	results       []string        // result names
	allPropsCache []string
	allLocals     map[string]types.Type // every source-level local of the function (for zero values on paths that skip a declaration)
	siteOrd       map[ssa.Instruction]int
	steps         int
	maxPaths      int
	paths         int
	aborted       string
	clauseHit     map[*Clause]bool // atcall / atgo / atsend clauses that met at least one site
	entryAlloc    string
}

const maxStepsPerFunc = 200000

func (v *Verifier) verifyFunction(fn *ssa.Function, c *FuncContract) {
	key := v.fnKey(fn)
	if v.funcsDone[key] {
		return
	}
	v.funcsDone[key] = true
	c.Used = true
	x := &fnExec{v: v, fn: fn, c: c, loops: map[*ssa.BasicBlock]*loopInfo{}, params: map[string]Term{}, siteOrd: map[ssa.Instruction]int{}, maxPaths: 4000, clauseHit: map[*Clause]bool{}}
	if p := fnPkg(fn); p != nil {
		x.pkg = p.Pkg
	}
	if len(fn.Blocks) == 0 {
		v.internalErr("function %s has no body but a non-extern contract", key)
		return
	}
	x.findLoops()
	x.numberSites()
	if strings.HasPrefix(c.Determ, "structural") {
		x.checkDeterministic()
	}
	// check that invariants refer to existing loops
	for _, inv := range c.Invariants {
		found := false
		for _, l := range x.loops {
			if l.ordinal == inv.Loop {
				found = true
			}
		}
		if !found {
			x.emitFixed("contract-detached.loop"+fmt.Sprint(inv.Loop)+"."+inv.Label, "detached", inv, "false",
				fmt.Sprintf("invariant refers to loop %d, function has %d loops", inv.Loop, len(x.loops)))
		}
	}
	// `loop N exhaustive`: every iteration the loop's own condition allows is taken (no early exit from the body)
	for _, ex := range c.Exhaustive {
		var li *loopInfo
		for _, l := range x.loops {
			if l.ordinal == ex.Loop {
				li = l
			}
		}
		if li == nil {
			x.emitFixed("contract-detached.loop"+fmt.Sprint(ex.Loop)+"."+ex.Label, "detached", ex, "false",
				fmt.Sprintf("exhaustive clause refers to loop %d, function has %d loops", ex.Loop, len(x.loops)))
			continue
		}
		var problems []string
		for b := range li.body {
			for _, s := range b.Succs {
				if li.body[s] || b == li.head {
					continue
				}
				// leaving the body for a block that panics is a stop of the program, not a silent early exit
				if n := len(s.Instrs); n > 0 {
					if _, isPanic := s.Instrs[n-1].(*ssa.Panic); isPanic {
						continue
					}
				}
				problems = append(problems, fmt.Sprintf("block %d leaves the loop for block %d (break, return or goto out of the body)", b.Index, s.Index))
			}
		}
		props := ex.Props
		if len(props) == 0 {
			props = c.Props
		}
		o := &Obligation{Name: x.fnName() + ".exhaustive.loop" + fmt.Sprint(ex.Loop) + "." + ex.Label, Func: x.fnName(), Kind: "structural", Label: ex.Label, Props: props,
			Clause: "loop " + fmt.Sprint(ex.Loop) + " is left only through its own condition (structural scan)", Goal: "true", Preset: true, Result: "unsat", Solver: "structural-scan"}
		if len(problems) > 0 {
			sort.Strings(problems)
			o.Result = "structural-fail"
			o.Output = strings.Join(problems, "; ")
		}
		v.obls = append(v.obls, o)
	}
	st := newState()
	x.initParams(st)
	func() {
		defer func() {
			if r := recover(); r != nil {
				if ee, ok := r.(evalErr); ok {
					x.aborted = ee.msg
					return
				}
				panic(r)
			}
		}()
		// vacuity: requires must be satisfiable (canary: "false" must not be provable at entry)
		pre := st.fork()
		x.assumeRequires(pre)
		x.emit(pre, "canary.entry", "canary", "", nil, "false", "requires must be satisfiable").Canary = true
		x.assumeRequires(st)
		x.execBlock(st, fn.Blocks[0], nil)
	}()
	// an atcall / atgo / atsend clause whose target the function does not call (send to) any more decides nothing: that is
	// reported, never silently skipped (e.g. strings.Replace exchanged for strings.ReplaceAll)
	if x.aborted == "" {
		for _, group := range []struct {
			kind string
			cls  []*Clause
		}{{"atcall", c.AtCall}, {"atgo", c.AtGo}, {"atsend", c.AtSend}} {
			for _, ac := range group.cls {
				if !x.clauseHit[ac] {
					what := group.kind + " " + ac.Target
					x.emitFixed("contract-detached."+group.kind+"."+ac.Target+"."+ac.Label, "detached", ac, "false",
						fmt.Sprintf("clause '%s %s' found no site: the function has no such call / send on any explored path", what, ac.Label))
				}
			}
		}
	}
	if x.aborted != "" {
		o := &Obligation{Name: x.fnName() + ".out-of-subset", Func: x.fnName(), Kind: "subset", Props: c.Props, Goal: "false", Clause: x.aborted, Result: "error", Output: x.aborted}
		v.obls = append(v.obls, o)
	}
}

func (x *fnExec) fnName() string { return x.c.Key }

func (x *fnExec) findLoops() {
	fn := x.fn
	var heads []*ssa.BasicBlock
	for _, b := range fn.Blocks {
		for _, s := range b.Succs {
			if s.Dominates(b) {
				li := x.loops[s]
				if li == nil {
					li = &loopInfo{head: s, body: map[*ssa.BasicBlock]bool{s: true}}
					x.loops[s] = li
					heads = append(heads, s)
				}
				// natural loop of back edge b -> s
				var stack []*ssa.BasicBlock
				if !li.body[b] {
					li.body[b] = true
					stack = append(stack, b)
				}
				for len(stack) > 0 {
					n := stack[len(stack)-1]
					stack = stack[:len(stack)-1]
					for _, p := range n.Preds {
						if !li.body[p] {
							li.body[p] = true
							stack = append(stack, p)
						}
					}
				}
			}
		}
	}
	// ordinal: by source position of the loop head's first positioned instruction, fallback block index
	sort.Slice(heads, func(i, j int) bool {
		pi, pj := x.loopPos(heads[i]), x.loopPos(heads[j])
		if pi != pj {
			return pi < pj
		}
		return heads[i].Index < heads[j].Index
	})
	for i, h := range heads {
		x.loops[h].ordinal = i
	}
}

func (x *fnExec) loopPos(h *ssa.BasicBlock) token.Pos {
	li := x.loops[h]
	best := token.NoPos
	for b := range li.body {
		for _, in := range b.Instrs {
			switch in.(type) {
			case *ssa.Phi, *ssa.DebugRef:
				continue // carry the position of the variable's declaration, not of the loop
			}
			if p := in.Pos(); p != token.NoPos && (best == token.NoPos || p < best) {
				best = p
			}
		}
	}
	return best
}

func (x *fnExec) numberSites() {
	count := map[string]int{}
	for _, b := range x.fn.Blocks {
		for _, in := range b.Instrs {
			var k string
			switch i := in.(type) {
			case *ssa.Call:
				k = "call:" + x.calleeName(&i.Call)
			case *ssa.Go:
				k = "go:" + x.calleeName(&i.Call)
			case *ssa.Defer:
				k = "defer:" + x.calleeName(&i.Call)
			case *ssa.Return:
				k = "return"
			case *ssa.Send:
				k = "send"
			default:
				continue
			}
			x.siteOrd[in] = count[k]
			count[k]++
		}
	}
}

func (x *fnExec) calleeName(call *ssa.CallCommon) string {
	if call.IsInvoke() {
		return ifaceKey(call.Value.Type(), call.Method.Name())
	}
	if fn := call.StaticCallee(); fn != nil {
		p := fnPkg(fn)
		if p != nil && x.v.isRepoPkg(p.Pkg.Path()) {
			return fn.RelString(p.Pkg)
		}
		return fn.String()
	}
	if b, ok := call.Value.(*ssa.Builtin); ok {
		return "builtin." + b.Name()
	}
	if k := x.dynCalleeKey(call.Value); k != "" {
		return k
	}
	return "dynamic"
}

func ifaceKey(t types.Type, method string) string {
	t = types.Unalias(t)
	if n, ok := t.(*types.Named); ok {
		if n.Obj().Pkg() != nil {
			return n.Obj().Pkg().Name() + "." + n.Obj().Name() + "." + method
		}
		return n.Obj().Name() + "." + method
	}
	return "interface." + method
}

// dynCalleeKey identifies a dynamically called function value by the struct field it was read from.
func (x *fnExec) dynCalleeKey(val ssa.Value) string {
	switch u := val.(type) {
	case *ssa.UnOp:
		if u.Op == token.MUL {
			if fa, ok := u.X.(*ssa.FieldAddr); ok {
				st, named := derefStruct(fa.X.Type())
				if st != nil && named != nil {
					return "fieldcall:" + named.Obj().Name() + "." + st.Field(fa.Field).Name()
				}
			}
			if fv, ok := u.X.(*ssa.FreeVar); ok {
				return "freevar:" + fv.Name()
			}
		}
	case *ssa.Lookup:
		return x.dynCalleeKey(u.X)
	case *ssa.Extract:
		if nx, ok := u.Tuple.(*ssa.Next); ok {
			if r, ok := nx.Iter.(*ssa.Range); ok {
				return x.dynCalleeKey(r.X)
			}
		}
	case *ssa.Parameter:
		return "param:" + u.Name()
	}
	return ""
}

func (x *fnExec) ctx(st *State) *EvalCtx {
	vars := map[string]Term{}
	for k, t := range x.params {
		vars[k] = t
	}
	// source-level local names
	for name, val := range st.env {
		if _, isParam := vars[name]; isParam {
			continue
		}
		if st.envAddr[name] {
			if l, ok := x.locOf(st, val); ok {
				vars[name] = x.readLoc(st, l)
			}
			continue
		}
		if t, ok := st.vals[val]; ok {
			vars[name] = t
		} else if c, ok := val.(*ssa.Const); ok {
			vars[name] = x.constVal(c)
		} else if _, ok := val.(*ssa.Phi); !ok {
			// candidate from nextRef not computed yet: the variable still has its zero value
			vars[name] = mkTerm(zeroOf(x.v.decls.sortOf(val.Type())), x.v.decls.sortOf(val.Type()), val.Type())
		}
	}
	// locals declared on another path of the function (e.g. inside an else branch not taken): Go's zero value
	if x.allLocals == nil {
		x.allLocals = map[string]types.Type{}
		for _, b := range x.fn.Blocks {
			for _, in := range b.Instrs {
				if d, ok := in.(*ssa.DebugRef); ok {
					if id, ok := d.Expr.(*ast.Ident); ok {
						t := d.X.Type()
						if d.IsAddr {
							if pt, ok := t.Underlying().(*types.Pointer); ok {
								t = pt.Elem()
							}
						}
						if _, dup := x.allLocals[id.Name]; !dup {
							x.allLocals[id.Name] = t
						}
					}
				}
			}
		}
	}
	for name, t := range x.allLocals {
		if _, ok := vars[name]; !ok {
			s := x.v.decls.sortOf(t)
			vars[name] = mkTerm(zeroOf(s), s, t)
		}
	}
	// free variables (captured by reference): name -> current content
	for _, fv := range x.fn.FreeVars {
		if t, ok := st.vals[fv]; ok {
			if pt, ok := fv.Type().Underlying().(*types.Pointer); ok {
				l := x.cellLoc(t.S, pt.Elem())
				vars[fv.Name()] = x.readLoc(st, l)
			}
		}
	}
	// $i<N> / $visited<N>: loop counters and visited sets of the loops whose state exists on this path
	for _, l2 := range x.loops {
		for _, in := range l2.head.Instrs {
			if phi, ok := in.(*ssa.Phi); ok && phi.Comment == "rangeindex" {
				if t, ok := st.vals[phi]; ok {
					vars[fmt.Sprintf("$i%d", l2.ordinal)] = mkTerm("(+ "+t.S+" 1)", sInt, types.Typ[types.Int])
				}
			}
			if nx, ok := in.(*ssa.Next); ok {
				if it, ok := st.iters[nx.Iter]; ok && it.Kind == "map" {
					vars[fmt.Sprintf("$visited%d", l2.ordinal)] = mkTerm(it.Visited, arrSort(it.KSort, sBool), nil)
				}
			}
			if sl := rangedSlice(in); sl != nil {
				if t, ok := st.vals[sl]; ok {
					vars[fmt.Sprintf("$range%d", l2.ordinal)] = t
				}
			}
		}
	}
	return &EvalCtx{v: x.v, pkg: x.pkg, vars: vars, st: st}
}

func (x *fnExec) initParams(st *State) {
	v := x.v
	alloc := v.initialHeapSym("$alloc", sInt)
	x.entryAlloc = alloc
	st.assume("(> " + alloc + " 0)")
	names := sigParamNames(x.fn)
	if len(x.c.ParamNames) > 0 {
		if len(x.c.ParamNames) != len(names) {
			v.internalErr("%s: contract header names %d parameters, function has %d", x.fnName(), len(x.c.ParamNames), len(names))
		} else {
			names = x.c.ParamNames
		}
	}
	for i, p := range x.fn.Params {
		s := v.decls.sortOf(p.Type())
		sym := "p_" + smtIdent(p.Name())
		if p.Name() == "" || p.Name() == "_" {
			sym = fmt.Sprintf("p_arg%d", i)
		}
		st.declare(sym, s)
		t := mkTerm(sym, s, p.Type())
		st.vals[p] = t
		x.params[names[i]] = t
		x.typeFacts(st, t, true)
	}
	for _, fv := range x.fn.FreeVars {
		s := v.decls.sortOf(fv.Type())
		sym := "fv_" + smtIdent(fv.Name())
		st.declare(sym, s)
		t := mkTerm(sym, s, fv.Type())
		st.vals[fv] = t
		x.typeFacts(st, t, true)
	}
	x.results = sigResultNames(x.fn.Signature)
	if len(x.c.ResNames) > 0 {
		if len(x.c.ResNames) != len(x.results) {
			v.internalErr("%s: contract header names %d results, function has %d", x.fnName(), len(x.c.ResNames), len(x.results))
		} else {
			x.results = x.c.ResNames
		}
	}
}

func isRefType(t types.Type) bool {
	if t == nil {
		return false
	}
	switch t.Underlying().(type) {
	case *types.Pointer, *types.Map, *types.Chan, *types.Signature, *types.Interface:
		return true
	}
	return false
}

// typeFacts assumes what Go's type system guarantees about a value.
func (x *fnExec) typeFacts(st *State, t Term, allocBound bool) {
	if t.T == nil {
		return
	}
	if namedString(t.T) == "time.Time" {
		return
	}
	switch u := t.T.Underlying().(type) {
	case *types.Pointer, *types.Map, *types.Chan, *types.Signature, *types.Interface:
		st.assume("(>= " + t.S + " 0)")
		if allocBound {
			st.assume("(< " + t.S + " " + st.heapGet(x.v, "$alloc", sInt) + ")")
		}
		if f := x.v.rtypeFact(t); f != "" {
			st.assume(f)
		}
	case *types.Basic:
		switch u.Kind() {
		case types.Uint8:
			st.assume("(and (>= " + t.S + " 0) (<= " + t.S + " 255))")
		case types.Uint, types.Uint16, types.Uint32, types.Uint64, types.Uintptr:
			st.assume("(>= " + t.S + " 0)")
		}
	case *types.Slice:
		if isSliceSort(t.Sort) {
			st.assume("(>= " + sliceLen(t) + " 0)")
		}
	}
}

func (x *fnExec) assumeRequires(st *State) {
	c := x.ctx(st)
	for _, r := range x.c.Requires {
		t, err := x.evalIn(st, c, r.E)
		if err != nil {
			fail("%s: requires %s: %v", x.fnName(), r.Label, err)
		}
		st.assume(t.S)
	}
}

// ---- obligations ----

func (x *fnExec) emit(st *State, name, kind, label string, props []string, goal, clause string) *Obligation {
	if len(props) == 0 {
		props = x.c.Props
		// supporting obligations (loop invariants, callee preconditions, frames) carry every clause of the function: they
		// belong to every property that some clause of this function is tagged with
		switch kind {
		case "inv-init", "inv-pres", "invariant", "call-pre", "frame", "autoframe", "step":
			props = x.allProps()
		}
	}
	var rargs map[string][]Term
	var rassume []string
	if len(x.c.ReplayInputs) > 0 && kind != "canary" {
		rargs = x.replayArgTerms(st)
	}
	if len(x.c.ReplayAssumes) > 0 && kind != "canary" {
		for _, ra := range x.c.ReplayAssumes {
			if t, err := x.evalIn(st, x.ctx(st), ra); err == nil && t.Sort == sBool {
				rassume = append(rassume, t.S)
			}
		}
	}
	o := &Obligation{Replayable: replayableContract(x.c) && x.fn.Parent() == nil, ReplayArgs: rargs, ReplayAssume: rassume, Name: x.fnName() + "." + name, Func: x.fnName(), Kind: kind, Label: label, Props: props, Clause: clause,
		Consts: st.consts[:len(st.consts):len(st.consts)], Asserts: st.asserts[:len(st.asserts):len(st.asserts)], Goal: goal, PathID: st.pathID,
		Trace: st.trace[:len(st.trace):len(st.trace)]}
	x.v.obls = append(x.v.obls, o)
	return o
}

// replayArgTerms evaluates the arguments of the contract's `replay input` directives in the current state (best effort:
// a directive whose expressions are not in scope yet is skipped).
func (x *fnExec) replayArgTerms(st *State) map[string][]Term {
	out := map[string][]Term{}
	for _, ri := range x.c.ReplayInputs {
		var ts []Term
		ok := true
		for _, a := range ri.Call.Args {
			c := x.ctx(st)
			// inside a loop: prev(x) is the value at the loop head (as in step clauses)
			for h, on := range st.inLoop {
				if on {
					if pv, ok := st.prevVals[h]; ok {
						c.prev = pv
					}
				}
			}
			t, err := x.evalIn(st, c, a)
			if err != nil {
				ok = false
				break
			}
			ts = append(ts, t)
		}
		if ok {
			out[ri.Param] = ts
		}
	}
	return out
}

func (x *fnExec) emitFixed(name, kind string, cl *Clause, goal, clause string) {
	o := &Obligation{Name: x.fnName() + "." + name, Func: x.fnName(), Kind: kind, Label: cl.Label, Props: x.c.Props, Clause: clause, Goal: goal}
	x.v.obls = append(x.v.obls, o)
}

// evalIn evaluates a contract expression and assumes the heap-closedness side facts it relies on.
func (x *fnExec) evalIn(st *State, c *EvalCtx, e Expr) (Term, error) {
	var facts []string
	c.facts = &facts
	t, err := c.Eval(e)
	c.facts = nil
	seen := map[string]bool{}
	for _, f := range facts {
		if !seen[f] {
			seen[f] = true
			st.assume(f)
		}
	}
	return t, err
}

func (x *fnExec) evalClause(st *State, c *EvalCtx, cl *Clause) string {
	t, err := x.evalIn(st, c, cl.E)
	if err != nil {
		fail("%s: %s %s: %v", x.fnName(), cl.Kind, cl.Label, err)
	}
	if t.Sort != sBool {
		fail("%s: %s %s is not boolean", x.fnName(), cl.Kind, cl.Label)
	}
	return t.S
}

// ---- block execution ----

func (x *fnExec) execBlock(st *State, b *ssa.BasicBlock, pred *ssa.BasicBlock) {
	for {
		x.steps++
		if x.steps > maxStepsPerFunc {
			fail("step limit exceeded (path explosion) in %s", x.fnName())
		}
		// leaving loops: clear inLoop flags for loops that do not contain b
		if len(st.inline) == 0 {
			for h := range st.inLoop {
				if st.inLoop[h] && !x.loops[h].body[b] {
					delete(st.inLoop, h)
				}
			}
		}
		start := 0
		if li, isHead := x.loops[b]; isHead {
			// bind phis from the incoming edge
			x.bindPhis(st, b, pred)
			if st.inLoop[b] {
				// back edge: preservation
				x.checkInvariants(st, li, "inv-pres")
				x.checkSteps(st, li)
				x.autoFrame(st, li, "inv-pres", false)
				x.endPath(st)
				return
			}
			x.checkInvariants(st, li, "inv-init")
			x.autoFrame(st, li, "inv-init", false)
			x.havocLoop(st, li)
			st.inLoop[b] = true
			c := x.ctxLoop(st, li)
			for _, inv := range x.c.Invariants {
				if inv.Loop == li.ordinal {
					st.assume(x.evalClause(st, c, inv))
				}
			}
			x.autoFrame(st, li, "", true)
			// remember the loop-head values for step clauses
			pv := map[string]Term{}
			lc := x.ctxLoop(st, li)
			for k, t := range lc.vars {
				pv[k] = t
			}
			// ghost variables too: prev(g) is the ghost state at the loop head
			for name, g := range x.v.cs.GhostVars {
				if _, dup := pv[name]; dup {
					continue
				}
				gt, gs := x.v.resolveType(g.Type, x.pkg)
				if gs != "" {
					pv[name] = mkTerm(st.heapGet(x.v, "GH_"+name, gs), gs, gt)
				}
			}
			st.prevVals[b] = pv
			start = x.numPhis(b)
		} else {
			x.bindPhis(st, b, pred)
			start = x.numPhis(b)
		}
		var next *ssa.BasicBlock
		for _, in := range b.Instrs[start:] {
			alive := x.execInstr(st, in)
			if !alive {
				return
			}
			switch t := in.(type) {
			case *ssa.Jump:
				next = b.Succs[0]
			case *ssa.If:
				cond := x.val(st, t.Cond)
				x.paths++
				if x.paths > x.maxPaths {
					fail("path limit exceeded in %s", x.fnName())
				}
				other := st.fork()
				x.v.pathCounter++
				other.pathID = x.v.pathCounter
				other.assume(not(cond.S))
				other.trace = append(other.trace, fmt.Sprintf("b%d:else", b.Index))
				st.assume(cond.S)
				st.trace = append(st.trace, fmt.Sprintf("b%d:then", b.Index))
				x.execBlock(other, b.Succs[1], b)
				next = b.Succs[0]
			}
		}
		if next == nil {
			return
		}
		pred = b
		b = next
	}
}

func (x *fnExec) numPhis(b *ssa.BasicBlock) int {
	n := 0
	for _, in := range b.Instrs {
		if _, ok := in.(*ssa.Phi); ok {
			n++
		} else {
			break
		}
	}
	return n
}

func (x *fnExec) bindPhis(st *State, b, pred *ssa.BasicBlock) {
	if pred == nil {
		return
	}
	idx := -1
	for i, p := range b.Preds {
		if p == pred {
			idx = i
			// if the same pred appears twice (both branches of an If go to b) any index is fine
			break
		}
	}
	if idx < 0 {
		fail("predecessor not found for phi binding")
	}
	// parallel assignment
	var phis []*ssa.Phi
	var vals []Term
	for _, in := range b.Instrs {
		phi, ok := in.(*ssa.Phi)
		if !ok {
			break
		}
		phis = append(phis, phi)
		vals = append(vals, x.val(st, phi.Edges[idx]))
	}
	for i, phi := range phis {
		t := vals[i]
		t.T = phi.Type()
		st.vals[phi] = t
		if tp, ok := st.tuples[phi.Edges[idx]]; ok {
			st.tuples[phi] = tp
		}
		if phi.Comment != "" {
			st.env[phi.Comment] = phi
			delete(st.envAddr, phi.Comment)
		}
	}
}

// rangedSlice: for the comparison `index < len(s)` in the head of a rangeindex loop, the slice s.
func rangedSlice(in ssa.Instruction) ssa.Value {
	bo, ok := in.(*ssa.BinOp)
	if !ok || bo.Op != token.LSS {
		return nil
	}
	if _, isIdx := bo.X.(*ssa.BinOp); !isIdx {
		return nil
	}
	lc, ok := bo.Y.(*ssa.Call)
	if !ok {
		return nil
	}
	b, ok := lc.Call.Value.(*ssa.Builtin)
	if !ok || b.Name() != "len" || len(lc.Call.Args) != 1 {
		return nil
	}
	if _, isSlice := lc.Call.Args[0].Type().Underlying().(*types.Slice); !isSlice {
		return nil
	}
	return lc.Call.Args[0]
}

func (x *fnExec) ctxLoop(st *State, li *loopInfo) *EvalCtx {
	c := x.ctx(st)
	// $visited: the visited set of the map iterator advanced in this loop's head
	for _, in := range li.head.Instrs {
		if nx, ok := in.(*ssa.Next); ok {
			if it, ok := st.iters[nx.Iter]; ok && it.Kind == "map" {
				c.vars["$visited"] = mkTerm(it.Visited, arrSort(it.KSort, sBool), nil)
			}
		}
	}
	// $i: the index phi of a rangeindex loop; $i<N> / $visited<N>: the same for enclosing loop N
	for _, l2 := range x.loops {
		for _, in := range l2.head.Instrs {
			if phi, ok := in.(*ssa.Phi); ok && phi.Comment == "rangeindex" {
				if t, ok := st.vals[phi]; ok {
					// SSA range index starts at -1 and is incremented before use; expose the number of completed iterations
					it := mkTerm("(+ "+t.S+" 1)", sInt, types.Typ[types.Int])
					c.vars[fmt.Sprintf("$i%d", l2.ordinal)] = it
					if l2 == li {
						c.vars["$i"] = it
					}
				}
			}
			if nx, ok := in.(*ssa.Next); ok {
				if it, ok := st.iters[nx.Iter]; ok && it.Kind == "map" {
					c.vars[fmt.Sprintf("$visited%d", l2.ordinal)] = mkTerm(it.Visited, arrSort(it.KSort, sBool), nil)
				}
			}
			// $range: the slice a rangeindex loop walks over (often an unnamed call result)
			if sl := rangedSlice(in); sl != nil && l2 == li {
				if t, ok := st.vals[sl]; ok {
					c.vars["$range"] = t
				}
			}
		}
	}
	return c
}

func (x *fnExec) checkInvariants(st *State, li *loopInfo, kind string) {
	c := x.ctxLoop(st, li)
	for _, inv := range x.c.Invariants {
		if inv.Loop != li.ordinal {
			continue
		}
		g := x.evalClause(st, c, inv)
		x.emit(st, fmt.Sprintf("%s.loop%d.%s", kind, li.ordinal, inv.Label), kind, inv.Label, inv.Props, g, inv.Src)
	}
}

// checkSteps: step clauses relate the previous loop-head state (prev(x)) to the current one.
func (x *fnExec) checkSteps(st *State, li *loopInfo) {
	c := x.ctxLoop(st, li)
	c.prev = st.prevVals[li.head]
	for _, sc := range x.c.Steps {
		if sc.Loop != li.ordinal {
			continue
		}
		g := x.evalClause(st, c, sc)
		x.emit(st, fmt.Sprintf("step.loop%d.%s", li.ordinal, sc.Label), "step", sc.Label, sc.Props, g, sc.Src)
	}
}

// autoFrame: the function's own frame (modifies clause) is an implicit invariant of every loop, for the heap
// variables the loop may modify. It is checked like a written invariant and assumed after the havoc.
func (x *fnExec) autoFrame(st *State, li *loopInfo, kind string, assume bool) {
	mods, all := x.loopModifies(li)
	if all {
		return
	}
	fs := x.frameSpecOf(st)
	if fs.all {
		return
	}
	for _, name := range mods {
		if name == "$fresh" {
			continue
		}
		cur := st.heapGet(x.v, name, x.v.heapSorts[name])
		goal, needed := x.frameGoal(fs, name, cur)
		if !needed {
			continue
		}
		if assume {
			st.assume(goal)
		} else {
			x.emit(st, fmt.Sprintf("%s.loop%d.autoframe.%s", kind, li.ordinal, name), kind, "autoframe", nil, goal, "implicit frame invariant for "+name)
		}
	}
}

// havocLoop gives fresh values to everything the loop body may modify.
func (x *fnExec) havocLoop(st *State, li *loopInfo) {
	v := x.v
	// phis at the head
	for _, in := range li.head.Instrs {
		phi, ok := in.(*ssa.Phi)
		if !ok {
			break
		}
		s := v.decls.sortOf(phi.Type())
		name := phi.Comment
		if name == "" {
			name = phi.Name()
		}
		sym := st.fresh(v, "L"+fmt.Sprint(li.ordinal)+"_"+name, s)
		t := mkTerm(sym, s, phi.Type())
		st.vals[phi] = t
		delete(st.tuples, phi)
		x.typeFacts(st, t, true)
	}
	mods, all := x.loopModifies(li)
	if all {
		x.havocAll(st)
	} else {
		hasFresh := false
		for _, name := range mods {
			if name == "$fresh" {
				hasFresh = true
			}
		}
		_ = hasFresh // callees with `modifies fresh` only allocate: unlisted arrays keep their symbols
		// alloc may grow
		x.bumpAlloc(st)
		singles := x.loopSingleTargets(li)
		for _, name := range mods {
			if name == "$fresh" {
				continue
			}
			old := st.heapGet(v, name, v.heapSorts[name])
			nw := st.heapHavoc(v, name, v.heapSorts[name])
			if tv, ok := singles[name]; ok && strings.HasPrefix(v.heapSorts[name], "(Array Int ") {
				var conds []string
				okAll := true
				for _, t := range tv {
					tt, has := st.vals[t]
					if !has {
						okAll = false
						break
					}
					conds = append(conds, not(eq("r!l", tt.S)))
				}
				if okAll {
					st.assume("(forall ((r!l Int)) (=> " + and(conds...) + " " + eq(sel(nw, "r!l"), sel(old, "r!l")) + "))")
				}
			}
		}
	}
	// iterators advanced inside the loop
	for b := range li.body {
		for _, in := range b.Instrs {
			if nx, ok := in.(*ssa.Next); ok {
				if it, ok := st.iters[nx.Iter]; ok && it.Kind == "map" {
					it.Visited = st.fresh(v, "visited", arrSort(it.KSort, sBool))
				}
			}
		}
	}
}

func (x *fnExec) bumpAlloc(st *State) {
	old := st.heapGet(x.v, "$alloc", sInt)
	n := st.heapHavoc(x.v, "$alloc", sInt)
	st.assume("(>= " + n + " " + old + ")")
}

func (x *fnExec) havocAll(st *State) {
	v := x.v
	oldAlloc := st.heapGet(v, "$alloc", sInt)
	v.counter++
	st.epoch = v.counter
	st.unknownHavoc = true
	st.heap = map[string]string{}
	n := st.heapHavoc(v, "$alloc", sInt)
	st.assume("(>= " + n + " " + oldAlloc + ")")
	st.notes = append(st.notes, "havoc-all")
}

// loopModifies computes the heap variables possibly written in the loop body.
func (x *fnExec) loopModifies(li *loopInfo) ([]string, bool) {
	set := map[string]bool{}
	all := false
	for b := range li.body {
		for _, in := range b.Instrs {
			m, a := x.instrModifies(in)
			for _, n := range m {
				set[n] = true
			}
			all = all || a
		}
	}
	var out []string
	for n := range set {
		out = append(out, n)
	}
	sort.Strings(out)
	return out, all
}

// loopSingleTargets: heap variables that the loop modifies only through map updates / deletes on map values defined
// outside the loop. Those are havocked at the loop head for these maps only (all other maps keep their contents).
func (x *fnExec) loopSingleTargets(li *loopInfo) map[string][]ssa.Value {
	targets := map[string][]ssa.Value{}
	other := map[string]bool{}
	outside := func(v ssa.Value) bool {
		if in, ok := v.(ssa.Instruction); ok {
			return !li.body[in.Block()]
		}
		return true // parameters, free variables, constants
	}
	for b := range li.body {
		for _, in := range b.Instrs {
			var mval ssa.Value
			var mt *types.Map
			switch i := in.(type) {
			case *ssa.MapUpdate:
				mval = i.Map
				mt, _ = i.Map.Type().Underlying().(*types.Map)
			case *ssa.Call:
				if bi, ok := i.Call.Value.(*ssa.Builtin); ok && bi.Name() == "delete" {
					mval = i.Call.Args[0]
					mt, _ = mval.Type().Underlying().(*types.Map)
				}
			}
			names, all := x.instrModifies(in)
			if all {
				return nil
			}
			if mval != nil && mt != nil && outside(mval) {
				for _, n := range x.mapHeapVars(mt) {
					targets[n] = append(targets[n], mval)
				}
				continue
			}
			for _, n := range names {
				other[n] = true
			}
		}
	}
	for n := range other {
		delete(targets, n)
	}
	return targets
}

func (x *fnExec) chanHeapVars(et types.Type) []string {
	v := x.v
	es := v.decls.sortOf(et)
	v.registerHeap("CH_sentn", arrSort(sInt, sInt))
	v.registerHeap("CH_recvn", arrSort(sInt, sInt))
	v.registerHeap("CH_recva", arrSort(sInt, sInt))
	v.registerHeap("CH_closed", arrSort(sInt, sBool))
	n := "CH_sent_" + mangleSort(es)
	v.registerHeap(n, arrSort(sInt, arrSort(sInt, es)))
	return []string{"CH_sentn", "CH_recvn", "CH_closed", n, "CH_recva"}
}

func (x *fnExec) mapHeapVars(mt *types.Map) []string {
	v := x.v
	ks := v.decls.sortOf(mt.Key())
	vs := v.decls.sortOf(mt.Elem())
	m := v.mapTypeName(mt)
	v.registerHeap("MD_"+m, arrSort(sInt, arrSort(ks, sBool)))
	v.registerHeap("MV_"+m, arrSort(sInt, arrSort(ks, vs)))
	v.registerHeap("ML_"+m, arrSort(sInt, sInt))
	return []string{"MD_" + m, "MV_" + m, "ML_" + m}
}

func (x *fnExec) instrModifies(in ssa.Instruction) (mods []string, all bool) {
	v := x.v
	switch i := in.(type) {
	case *ssa.Store:
		if l, ok := x.staticLoc(i.Addr); ok {
			return []string{l}, false
		}
		return nil, true
	case *ssa.MapUpdate:
		if mt, ok := i.Map.Type().Underlying().(*types.Map); ok {
			return x.mapHeapVars(mt), false
		}
		return nil, true
	case *ssa.Send:
		if ct, ok := i.Chan.Type().Underlying().(*types.Chan); ok {
			return x.chanHeapVars(ct.Elem()), false
		}
	case *ssa.UnOp:
		if i.Op == token.ARROW {
			if ct, ok := i.X.Type().Underlying().(*types.Chan); ok {
				return x.chanHeapVars(ct.Elem()), false
			}
		}
	case *ssa.Select:
		var out []string
		for _, s := range i.States {
			if ct, ok := s.Chan.Type().Underlying().(*types.Chan); ok {
				out = append(out, x.chanHeapVars(ct.Elem())...)
			}
		}
		return out, false
	case *ssa.Alloc:
		// allocation initialises cells
		if _, isStruct := i.Type().(*types.Pointer).Elem().Underlying().(*types.Struct); isStruct {
			return x.structFieldHeaps(i.Type().(*types.Pointer).Elem()), false
		}
		l := x.allocHeap(i.Type().(*types.Pointer).Elem())
		return []string{l}, false
	case *ssa.MakeMap:
		if mt, ok := i.Type().Underlying().(*types.Map); ok {
			return x.mapHeapVars(mt), false
		}
	case *ssa.MakeChan:
		if ct, ok := i.Type().Underlying().(*types.Chan); ok {
			return x.chanHeapVars(ct.Elem()), false
		}
	case *ssa.Call:
		return x.callModifies(&i.Call, false)
	case *ssa.Go:
		return x.callModifies(&i.Call, true)
	case *ssa.Defer:
		return nil, false
	case *ssa.RunDefers:
		// deferred calls of the function run here
		var out []string
		for _, b := range x.fn.Blocks {
			for _, in2 := range b.Instrs {
				if d, ok := in2.(*ssa.Defer); ok {
					m, a := x.callModifies(&d.Call, false)
					if a {
						return nil, true
					}
					out = append(out, m...)
				}
			}
		}
		return out, false
	}
	_ = v
	return nil, false
}

func (x *fnExec) structFieldHeaps(t types.Type) []string {
	var out []string
	st, named := derefStruct(t)
	if st == nil || named == nil {
		return nil
	}
	for i := 0; i < st.NumFields(); i++ {
		f := st.Field(i)
		if x.v.isEmbeddedStructField(f.Type()) {
			out = append(out, x.structFieldHeaps(f.Type())...)
			continue
		}
		n := x.v.fieldHeapName(named, f)
		x.v.registerHeap(n, arrSort(sInt, x.v.decls.sortOf(f.Type())))
		out = append(out, n)
	}
	return out
}

func (x *fnExec) allocHeap(elem types.Type) string {
	v := x.v
	if at, ok := elem.Underlying().(*types.Array); ok && !isByteElem(at.Elem()) {
		es := v.decls.sortOf(at.Elem())
		n := "ARR_" + mangleSort(es)
		v.registerHeap(n, arrSort(sInt, arrSort(sInt, es)))
		return n
	}
	s := v.decls.sortOf(elem)
	n := "CELL_" + mangleSort(s)
	v.registerHeap(n, arrSort(sInt, s))
	return n
}

// staticLoc determines the heap variable written by a store through addr, if syntactically evident.
func (x *fnExec) staticLoc(addr ssa.Value) (string, bool) {
	v := x.v
	switch a := addr.(type) {
	case *ssa.FieldAddr:
		st, named := derefStruct(a.X.Type())
		if st == nil || named == nil {
			return "", false
		}
		f := st.Field(a.Field)
		if v.isEmbeddedStructField(f.Type()) {
			return "", false
		}
		n := v.fieldHeapName(named, f)
		v.registerHeap(n, arrSort(sInt, v.decls.sortOf(f.Type())))
		return n, true
	case *ssa.IndexAddr:
		if pt, ok := a.X.Type().Underlying().(*types.Pointer); ok {
			return x.allocHeap(pt.Elem()), true
		}
		return "", false
	case *ssa.Alloc:
		return x.allocHeap(a.Type().(*types.Pointer).Elem()), true
	case *ssa.Global:
		n := "G_" + a.Pkg.Pkg.Name() + "_" + a.Name()
		v.registerHeap(n, v.decls.sortOf(a.Type().(*types.Pointer).Elem()))
		return n, true
	case *ssa.FreeVar:
		if pt, ok := a.Type().Underlying().(*types.Pointer); ok {
			return x.allocHeap(pt.Elem()), true
		}
	case *ssa.Parameter:
		if pt, ok := a.Type().Underlying().(*types.Pointer); ok {
			if _, isStruct := pt.Elem().Underlying().(*types.Struct); !isStruct {
				return x.allocHeap(pt.Elem()), true
			}
		}
	}
	return "", false
}

// callModifies resolves the modifies clause of a callee to heap variable names (whole arrays).
func (x *fnExec) callModifies(call *ssa.CallCommon, isGo bool) ([]string, bool) {
	if b, ok := call.Value.(*ssa.Builtin); ok {
		switch b.Name() {
		case "delete":
			if mt, ok := call.Args[0].Type().Underlying().(*types.Map); ok {
				return x.mapHeapVars(mt), false
			}
		case "close":
			if ct, ok := call.Args[0].Type().Underlying().(*types.Chan); ok {
				return x.chanHeapVars(ct.Elem()), false
			}
		}
		return nil, false
	}
	c := x.calleeContract(call)
	if c == nil {
		return nil, true
	}
	mods := c.Modifies
	if isGo {
		mods = c.SpawnMods
	}
	var out []string
	for _, m := range mods {
		if strings.TrimSpace(m) == "fresh" {
			out = append(out, "$fresh")
			continue
		}
		names, all := x.modTargetHeaps(m, c)
		if all {
			return nil, true
		}
		out = append(out, names...)
	}
	return out, false
}

// modTargetHeaps maps a textual modifies target to heap variable names.
func (x *fnExec) modTargetHeaps(m string, c *FuncContract) ([]string, bool) {
	v := x.v
	m = strings.TrimSpace(m)
	if m == "fresh" {
		return nil, true
	}
	if strings.HasPrefix(m, "new(") && strings.HasSuffix(m, ")") {
		m = strings.TrimSpace(m[4 : len(m)-1])
	}
	if m == "*" {
		return nil, true
	}
	if strings.HasPrefix(m, "chan(") {
		m = "chan"
	}
	if m == "chanrecv" || m == "chansend" || m == "chanclose" {
		x.chanHeapVars(types.Typ[types.Int])
		x.chanHeapVars(types.Typ[types.String])
		switch m {
		case "chanrecv":
			return []string{"CH_recvn", "CH_recva"}, false
		case "chanclose":
			return []string{"CH_closed"}, false
		}
		var out []string
		for n := range v.heapSorts {
			if strings.HasPrefix(n, "CH_sent") {
				out = append(out, n)
			}
		}
		return dedup(out), false
	}
	if m == "chan" {
		var out []string
		x.chanHeapVars(types.Typ[types.Int])
		x.chanHeapVars(types.Typ[types.String])
		for n := range v.heapSorts {
			if strings.HasPrefix(n, "CH_") {
				out = append(out, n)
			}
		}
		// make sure the basic ones exist
		v.registerHeap("CH_sentn", arrSort(sInt, sInt))
		v.registerHeap("CH_recvn", arrSort(sInt, sInt))
		v.registerHeap("CH_closed", arrSort(sInt, sBool))
		out = append(out, "CH_sentn", "CH_recvn", "CH_closed", "CH_recva")
		return dedup(out), false
	}
	if _, ok := v.cs.GhostVars[m]; ok {
		g := v.cs.GhostVars[m]
		_, s := v.resolveType(g.Type, x.pkg)
		v.registerHeap("GH_"+m, s)
		return []string{"GH_" + m}, false
	}
	if strings.HasPrefix(m, "map[") {
		t, _ := v.resolveType(m, v.pkgOf(c))
		return x.mapHeapVars(t.(*types.Map)), false
	}
	if strings.HasSuffix(m, "[*]") {
		// contents of one map: whole map type arrays are havocked, caller keeps other refs via frame axiom
		e := strings.TrimSuffix(m, "[*]")
		mt := x.typeOfContractPath(e, c)
		if mt2, ok := mt.Underlying().(*types.Map); ok {
			return x.mapHeapVars(mt2), false
		}
		fail("modifies %s: not a map", m)
	}
	if i := strings.LastIndex(m, "."); i >= 0 {
		base, field := m[:i], m[i+1:]
		// Type.field or expr.field
		var t types.Type
		if isTypeName(v, base, v.pkgOf(c)) {
			t, _ = v.resolveType(base, v.pkgOf(c))
		} else {
			t = x.typeOfContractPath(base, c)
		}
		st, named := derefStruct(t)
		if st == nil {
			fail("modifies %s: %s is not a struct", m, base)
		}
		obj, index, _ := types.LookupFieldOrMethod(t, true, v.pkgOf(c), field)
		if obj == nil {
			// unexported field of foreign package
			for j := 0; j < st.NumFields(); j++ {
				if st.Field(j).Name() == field {
					index = []int{j}
				}
			}
		}
		if len(index) == 0 {
			fail("modifies %s: no such field", m)
		}
		cur := t
		var hn string
		for _, idx := range index {
			st, named = derefStruct(cur)
			f := st.Field(idx)
			hn = v.fieldHeapName(named, f)
			if !v.isEmbeddedStructField(f.Type()) {
				v.registerHeap(hn, arrSort(sInt, v.decls.sortOf(f.Type())))
			}
			cur = f.Type()
		}
		return []string{hn}, false
	}
	// package-level variable
	if p := v.pkgOf(c); p != nil {
		if o, ok := p.Scope().Lookup(m).(*types.Var); ok {
			n := "G_" + p.Name() + "_" + o.Name()
			v.registerHeap(n, v.decls.sortOf(o.Type()))
			return []string{n}, false
		}
	}
	if strings.HasPrefix(m, "cells") {
		var out []string
		for n := range v.heapSorts {
			if strings.HasPrefix(n, "CELL_") || strings.HasPrefix(n, "ARR_") {
				out = append(out, n)
			}
		}
		return out, false
	}
	fail("cannot resolve modifies target %q of %s", m, c.Key)
	return nil, false
}

func dedup(xs []string) []string {
	seen := map[string]bool{}
	var out []string
	for _, s := range xs {
		if !seen[s] {
			seen[s] = true
			out = append(out, s)
		}
	}
	sort.Strings(out)
	return out
}

func isTypeName(v *Verifier, name string, pkg *types.Package) bool {
	if pkg != nil {
		if _, ok := pkg.Scope().Lookup(name).(*types.TypeName); ok {
			return true
		}
	}
	if i := strings.LastIndex(name, "."); i >= 0 {
		for _, p := range v.allTypesPkgs {
			if p.Name() == name[:i] {
				if _, ok := p.Scope().Lookup(name[i+1:]).(*types.TypeName); ok {
					return true
				}
			}
		}
	}
	return false
}

func (v *Verifier) pkgOf(c *FuncContract) *types.Package {
	for _, p := range v.allTypesPkgs {
		if p.Path() == c.Pkg {
			return p
		}
	}
	return nil
}

// typeOfContractPath computes the Go type of a simple path expression (param.field.field) in a callee contract.
func (x *fnExec) typeOfContractPath(e string, c *FuncContract) types.Type {
	v := x.v
	parts := strings.Split(e, ".")
	fn := v.functionOf(c)
	var t types.Type
	if fn != nil {
		names := sigParamNames(fn)
		if len(c.ParamNames) == len(names) {
			names = c.ParamNames
		}
		var ptypes []types.Type
		if len(fn.Params) > 0 {
			for _, p := range fn.Params {
				ptypes = append(ptypes, p.Type())
			}
		} else {
			if fn.Signature.Recv() != nil {
				ptypes = append(ptypes, fn.Signature.Recv().Type())
			}
			for i := 0; i < fn.Signature.Params().Len(); i++ {
				ptypes = append(ptypes, fn.Signature.Params().At(i).Type())
			}
		}
		for i, n := range names {
			if n == parts[0] && i < len(ptypes) {
				t = ptypes[i]
			}
		}
		rn := sigResultNames(fn.Signature)
		if len(c.ResNames) == len(rn) {
			rn = c.ResNames
		}
		for i, n := range rn {
			if n == parts[0] {
				t = fn.Signature.Results().At(i).Type()
			}
		}
	}
	if t == nil && c.ifaceRecv != nil && parts[0] == "self" {
		t = c.ifaceRecv
	}
	if t == nil {
		fail("modifies path %q: unknown root in contract %s", e, c.Key)
	}
	for _, f := range parts[1:] {
		obj, _, _ := types.LookupFieldOrMethod(t, true, v.pkgOf(c), f)
		fv, ok := obj.(*types.Var)
		if !ok {
			fail("modifies path %q: no field %s", e, f)
		}
		t = fv.Type()
	}
	return t
}

func (v *Verifier) functionOf(c *FuncContract) *ssa.Function {
	if c.Extern {
		for k, fn := range v.fnByKey {
			_ = k
			if fn.String() == c.Key {
				return fn
			}
		}
		return nil
	}
	return v.fnByKey[c.Pkg+"::"+c.Key]
}

// ---- values ----

func (x *fnExec) constVal(c *ssa.Const) Term {
	v := x.v
	t := c.Type()
	s := v.decls.sortOf(t)
	if c.Value == nil {
		// zero value / nil
		return mkTerm(zeroOf(s), s, t)
	}
	switch c.Value.Kind() {
	case constant.Bool:
		if constant.BoolVal(c.Value) {
			return mkTerm("true", sBool, t)
		}
		return mkTerm("false", sBool, t)
	case constant.String:
		return mkTerm(smtString(constant.StringVal(c.Value)), sString, t)
	case constant.Int:
		if n, ok := constant.Int64Val(c.Value); ok {
			return mkTerm(smtInt(n), sInt, t)
		}
		if _, ok := constant.Uint64Val(c.Value); ok {
			return mkTerm(c.Value.ExactString(), sInt, t)
		}
	case constant.Float:
		f, _ := constant.Float64Val(c.Value)
		if s == sInt {
			return mkTerm(smtInt(int64(f)), sInt, t)
		}
		return mkTerm(fmt.Sprintf("%f", f), "Real", t)
	}
	fail("unsupported constant %v", c)
	return Term{}
}

func (x *fnExec) val(st *State, sv ssa.Value) Term {
	if t, ok := st.vals[sv]; ok {
		return t
	}
	v := x.v
	switch u := sv.(type) {
	case *ssa.Const:
		return x.constVal(u)
	case *ssa.Function:
		name := "fn_" + smtIdent(u.String())
		v.decls.add("fnval:"+name, "(declare-const "+name+" Int)")
		v.decls.add("fnvalpos:"+name, "(assert (> "+name+" 0))")
		return mkTerm(name, sInt, u.Type())
	case *ssa.Global:
		// address of a global used as a value: opaque ref
		name := "gaddr_" + smtIdent(u.String())
		v.decls.add("gaddr:"+name, "(declare-const "+name+" Int)")
		return mkTerm(name, sInt, u.Type())
	case *ssa.Builtin:
		return mkTerm("0", sInt, u.Type())
	}
	// address-valued instruction whose location we track: used as a plain value (escaping address)
	if l, ok := st.locs[sv]; ok && l.Kind == "cell" {
		return mkTerm(l.Ref, sInt, sv.Type())
	}
	fail("no value for SSA value %s (%T) in %s", sv.Name(), sv, x.fnName())
	return Term{}
}

func (x *fnExec) cellLoc(ref string, elem types.Type) Loc {
	h := x.allocHeap(elem)
	if at, ok := elem.Underlying().(*types.Array); ok && !isByteElem(at.Elem()) {
		return Loc{Kind: "arr", Heap: h, HSort: x.v.heapSorts[h], Ref: ref, T: elem}
	}
	s := x.v.decls.sortOf(elem)
	return Loc{Kind: "cell", Heap: h, HSort: arrSort(sInt, s), Ref: ref, Sort: s, T: elem}
}

func (x *fnExec) locOf(st *State, addr ssa.Value) (Loc, bool) {
	if l, ok := st.locs[addr]; ok {
		return l, true
	}
	v := x.v
	switch a := addr.(type) {
	case *ssa.Global:
		elem := a.Type().(*types.Pointer).Elem()
		s := v.decls.sortOf(elem)
		n := "G_" + a.Pkg.Pkg.Name() + "_" + a.Name()
		v.registerHeap(n, s)
		return Loc{Kind: "global", Heap: n, HSort: s, Sort: s, T: elem}, true
	case *ssa.FreeVar, *ssa.Parameter:
		if pt, ok := addr.Type().Underlying().(*types.Pointer); ok {
			if _, isStruct := pt.Elem().Underlying().(*types.Struct); !isStruct || namedString(pt.Elem()) == "time.Time" {
				t := x.val(st, addr)
				return x.cellLoc(t.S, pt.Elem()), true
			}
		}
	}
	// generic pointer value to a non-struct: a cell
	if pt, ok := addr.Type().Underlying().(*types.Pointer); ok {
		if _, isStruct := pt.Elem().Underlying().(*types.Struct); !isStruct || namedString(pt.Elem()) == "time.Time" {
			if t, ok := st.vals[addr]; ok {
				return x.cellLoc(t.S, pt.Elem()), true
			}
		}
	}
	return Loc{}, false
}

func (x *fnExec) readLoc(st *State, l Loc) Term {
	v := x.v
	switch l.Kind {
	case "field", "cell":
		return mkTerm(sel(st.heapGet(v, l.Heap, l.HSort), l.Ref), l.Sort, l.T)
	case "global":
		if ct, ok := v.constGlobals[l.Heap]; ok {
			ct.T = l.T
			return ct
		}
		return mkTerm(st.heapGet(v, l.Heap, l.HSort), l.Sort, l.T)
	case "arrelem":
		return mkTerm(sel(sel(st.heapGet(v, l.Heap, l.HSort), l.Ref), l.Idx), l.Sort, l.T)
	case "sliceelem":
		return mkTerm(sel(sliceElems(l.Slice), l.Idx), l.Sort, l.T)
	case "arr":
		// whole array value as slice
		at := l.T.Underlying().(*types.Array)
		es := v.decls.sortOf(at.Elem())
		ss := v.decls.sliceOf(es)
		t := mkTerm(mkSlice(ss, fmt.Sprint(at.Len()), sel(st.heapGet(v, l.Heap, l.HSort), l.Ref)), ss, l.T)
		t.KnownLen = int(at.Len())
		return t
	}
	fail("cannot read location kind %s", l.Kind)
	return Term{}
}

func (x *fnExec) writeLoc(st *State, l Loc, val Term) {
	v := x.v
	switch l.Kind {
	case "field", "cell":
		cur := st.heapGet(v, l.Heap, l.HSort)
		st.heapSet(v, l.Heap, l.HSort, store(cur, l.Ref, val.S))
	case "global":
		st.heapSet(v, l.Heap, l.HSort, val.S)
	case "arrelem":
		cur := st.heapGet(v, l.Heap, l.HSort)
		st.heapSet(v, l.Heap, l.HSort, store(cur, l.Ref, store(sel(cur, l.Ref), l.Idx, val.S)))
	case "arr":
		cur := st.heapGet(v, l.Heap, l.HSort)
		if isSliceSort(val.Sort) {
			st.heapSet(v, l.Heap, l.HSort, store(cur, l.Ref, sliceElems(val)))
		} else {
			// opaque array value (e.g. [20]byte as String): keep as uninterpreted association
			fail("store of array value of sort %s", val.Sort)
		}
	default:
		fail("cannot write location kind %s", l.Kind)
	}
}

func (x *fnExec) endPath(st *State) {}

// newRef allocates a fresh object reference.
func (x *fnExec) newRef(st *State, base string) string {
	v := x.v
	cur := st.heapGet(v, "$alloc", sInt)
	r := st.fresh(v, base, sInt)
	st.assume(eq(r, cur))
	st.heapSet(v, "$alloc", sInt, "(+ "+r+" 1)")
	return r
}

func (x *fnExec) zeroInitStruct(st *State, ref string, t types.Type) {
	v := x.v
	s, named := derefStruct(t)
	if s == nil || named == nil {
		return
	}
	for i := 0; i < s.NumFields(); i++ {
		f := s.Field(i)
		if v.isEmbeddedStructField(f.Type()) {
			x.zeroInitStruct(st, "("+v.embFunc(named, f)+" "+ref+")", f.Type())
			continue
		}
		fs := v.decls.sortOf(f.Type())
		hn := v.fieldHeapName(named, f)
		hs := arrSort(sInt, fs)
		cur := st.heapGet(v, hn, hs)
		st.heapSet(v, hn, hs, store(cur, ref, zeroOf(fs)))
	}
}

// nextRef finds the value of the next (in block order) DebugRef of the same variable with a non-constant value.
func (x *fnExec) nextRef(d *ssa.DebugRef) ssa.Value {
	seen := false
	for _, b := range x.fn.Blocks {
		for _, in := range b.Instrs {
			if in == ssa.Instruction(d) {
				seen = true
				continue
			}
			if !seen {
				continue
			}
			if d2, ok := in.(*ssa.DebugRef); ok && d2.Object() == d.Object() && !d2.IsAddr {
				if _, isConst := d2.X.(*ssa.Const); !isConst {
					return d2.X
				}
				return nil
			}
		}
	}
	return nil
}

func (x *fnExec) debugRef(st *State, d *ssa.DebugRef) {
	id, ok := d.Expr.(*ast.Ident)
	if !ok {
		return
	}
	if _, isVar := d.Object().(*types.Var); !isVar {
		return
	}
	st.env[id.Name] = d.X
	// go/ssa reports the zero value at the declaration of `x := e`; the value of e is referred to by the next
	// DebugRef of x. Remember that one as a better candidate.
	if _, isConst := d.X.(*ssa.Const); isConst && d.Object().Pos() == id.Pos() {
		if cand := x.nextRef(d); cand != nil {
			st.env[id.Name] = cand
		}
	}
	if d.IsAddr {
		st.envAddr[id.Name] = true
	} else {
		delete(st.envAddr, id.Name)
	}
}

// rtypeFact: a non-nil reference of a static pointer/map/chan type has that dynamic type; references of different
// types never alias.
func (v *Verifier) rtypeFact(t Term) string {
	if t.T == nil {
		return ""
	}
	switch t.T.Underlying().(type) {
	case *types.Pointer, *types.Map, *types.Chan:
	default:
		return ""
	}
	key := types.TypeString(types.Unalias(t.T), nil)
	if u, ok := types.Unalias(t.T).(*types.Named); ok {
		// named map/chan types: use the underlying type (conversions between them keep the object)
		key = types.TypeString(u.Underlying(), nil)
	}
	id, ok := v.rtypeIDs[key]
	if !ok {
		id = len(v.rtypeIDs) + 1
		v.rtypeIDs[key] = id
	}
	v.decls.add("fun:rtype", "(declare-fun rtype (Int) Int)")
	return "(=> (not (= " + t.S + " 0)) (= (rtype " + t.S + ") " + fmt.Sprint(id) + "))"
}

// checkDeterministic: structural obligation (no solver): the function's result cannot depend on map iteration order,
// scheduling, time or randomness: no map range, select, go or channel operation, and every callee is itself deterministic
// (structurally, or by a contract that pins the result down uniquely).
func (x *fnExec) checkDeterministic() {
	problems := x.scanDeterministic(x.fn, 0)
	props := x.c.DetermProps
	if len(props) == 0 {
		props = x.c.Props
	}
	o := &Obligation{Name: x.fnName() + ".deterministic", Func: x.fnName(), Kind: "structural", Label: "deterministic", Props: props,
		Clause: "result is a function of the inputs only (structural scan)", Goal: "true", Preset: true, Result: "unsat", Solver: "structural-scan"}
	if len(problems) > 0 {
		o.Result = "structural-fail"
		o.Output = strings.Join(dedup(problems), "; ")
	}
	x.v.obls = append(x.v.obls, o)
}

// scanDeterministic lists the constructs in fn that could make its result depend on anything but its inputs. A call of a
// repository function without contract is followed into its body (the same functions that are executed inline).
func (x *fnExec) scanDeterministic(fn *ssa.Function, depth int) []string {
	var problems []string
	for _, b := range fn.Blocks {
		for _, in := range b.Instrs {
			switch i := in.(type) {
			case *ssa.Range:
				if _, ok := i.X.Type().Underlying().(*types.Map); ok {
					problems = append(problems, "range over a map")
				}
			case *ssa.Select:
				problems = append(problems, "select")
			case *ssa.Go:
				problems = append(problems, "go statement")
			case *ssa.Send, *ssa.MakeChan:
				problems = append(problems, "channel operation")
			case *ssa.UnOp:
				if i.Op == token.ARROW {
					problems = append(problems, "channel receive")
				}
			case *ssa.Call:
				if _, ok := i.Call.Value.(*ssa.Builtin); ok {
					continue
				}
				c := x.calleeContract(&i.Call)
				name := x.calleeName(&i.Call)
				if c == nil {
					callee := i.Call.StaticCallee()
					if callee != nil && depth < 2 && callee != fn && x.inlinable(callee, newState()) {
						for _, p := range x.scanDeterministic(callee, depth+1) {
							problems = append(problems, p+" (in "+name+")")
						}
						continue
					}
					problems = append(problems, "call of "+name+" (no contract)")
				} else if c.Determ == "" && !c.NoReturn {
					problems = append(problems, "call of "+name+" (not marked deterministic)")
				}
			}
		}
	}
	return problems
}

// allProps: the function's properties plus every property some clause of its contract is tagged with.
func (x *fnExec) allProps() []string {
	if x.allPropsCache != nil {
		return x.allPropsCache
	}
	seen := map[string]bool{}
	var out []string
	add := func(ps []string) {
		for _, p := range ps {
			if !seen[p] {
				seen[p] = true
				out = append(out, p)
			}
		}
	}
	add(x.c.Props)
	for _, cl := range [][]*Clause{x.c.Requires, x.c.Ensures, x.c.Assumes, x.c.Invariants, x.c.Steps, x.c.Effects, x.c.AtCall, x.c.AtGo, x.c.AtSend, x.c.AtReturn} {
		for _, c := range cl {
			add(c.Props)
		}
	}
	sort.Strings(out)
	x.allPropsCache = out
	return out
}
