package main

import (
	"encoding/json"
	"flag"
	"fmt"
	"go/types"
	"os"
	"path/filepath"
	"sort"
	"strconv"
	"strings"
	"time"

	"golang.org/x/tools/go/ssa"
)

func usage() {
	fmt.Fprintln(os.Stderr, `usage:
  govc check <PROP> [--tier quick|thorough] [--repo DIR] [-v]
  govc func <key-substring>... [--repo DIR] [-v]     verify single functions (debug)
  govc dumpssa <name>... [--repo DIR]
  govc replay <replay-file>
  govc list [--repo DIR]`)
	os.Exit(2)
}

var noEvidence bool

func main() {
	if len(os.Args) < 2 {
		usage()
	}
	cmd := os.Args[1]
	fs := flag.NewFlagSet(cmd, flag.ExitOnError)
	tier := fs.String("tier", envOr("VERIF_TIER", "quick"), "quick or thorough")
	repo := fs.String("repo", "/repo", "repository directory")
	verbose := fs.Bool("v", false, "verbose")
	safety := fs.Bool("safety", false, "emit safety obligations")
	timeout := fs.Int("timeout", 0, "per-obligation solver timeout (s)")
	fs.BoolVar(&noEvidence, "noevidence", false, "do not write evidence/replay files under /verif (scratch runs on another tree)")
	var pos []string
	args := os.Args[2:]
	// allow flags after positional args
	for len(args) > 0 {
		if strings.HasPrefix(args[0], "-") {
			fs.Parse(args)
			args = fs.Args()
			continue
		}
		pos = append(pos, args[0])
		args = args[1:]
	}
	switch cmd {
	case "check":
		if len(pos) != 1 {
			usage()
		}
		os.Exit(runCheck(pos[0], *tier, *repo, *verbose, *safety, *timeout))
	case "func":
		os.Exit(runFuncs(pos, *repo, *verbose, *safety, *timeout))
	case "dumpssa":
		v, err := loadVerifier(*repo)
		if err != nil {
			fmt.Fprintln(os.Stderr, "INTERNAL-ERROR load:", err)
			os.Exit(3)
		}
		for k, fn := range v.fnByKey {
			for _, p := range pos {
				if strings.HasSuffix(k, "::"+p) || fn.Name() == p {
					fn.WriteTo(os.Stdout)
				}
			}
		}
	case "loops":
		v, err := loadVerifier(*repo)
		if err != nil {
			fmt.Fprintln(os.Stderr, "INTERNAL-ERROR load:", err)
			os.Exit(3)
		}
		for k, fn := range v.fnByKey {
			for _, p := range pos {
				if strings.HasSuffix(k, "::"+p) {
					x := &fnExec{v: v, fn: fn, loops: map[*ssa.BasicBlock]*loopInfo{}}
					x.findLoops()
					for h, li := range x.loops {
						fmt.Printf("%s loop %d: head block %d (%s) at %s\n", p, li.ordinal, h.Index, h.Comment, v.prog.Fset.Position(x.loopPos(h)))
					}
				}
			}
		}
	case "list":
		v, err := loadVerifier(*repo)
		if err != nil {
			fmt.Fprintln(os.Stderr, "INTERNAL-ERROR load:", err)
			os.Exit(3)
		}
		for _, c := range v.cs.Order {
			kind := "func"
			if c.Extern {
				kind = "extern"
			}
			if c.Iface {
				kind = "iface"
			}
			fmt.Printf("%-6s %-50s props=%v\n", kind, c.Key, c.Props)
		}
	case "replay":
		if len(pos) != 1 {
			usage()
		}
		os.Exit(runReplay(pos[0], *repo))
	default:
		usage()
	}
}

func envOr(k, d string) string {
	if s := os.Getenv(k); s != "" {
		return s
	}
	return d
}

func verifRoot() string {
	if r := os.Getenv("VERIF_ROOT"); r != "" {
		return r
	}
	exe, err := os.Executable()
	if err == nil {
		d := filepath.Dir(filepath.Dir(exe))
		if _, err := os.Stat(filepath.Join(d, "MANIFEST.json")); err == nil {
			return d
		}
	}
	return "/verif"
}

// contractHasProp: does this function contract take part in property p?
func contractHasProp(c *FuncContract, p string) bool {
	for _, q := range c.Props {
		if q == p {
			return true
		}
	}
	for _, lists := range [][]*Clause{c.Requires, c.Ensures, c.Invariants, c.Steps, c.Effects, c.AtCall, c.AtGo, c.AtSend} {
		for _, cl := range lists {
			for _, q := range cl.Props {
				if q == p {
					return true
				}
			}
		}
	}
	return false
}

func oblHasProp(o *Obligation, p string) bool {
	for _, q := range o.Props {
		if q == p {
			return true
		}
	}
	return false
}

func (v *Verifier) verifyContract(c *FuncContract) {
	if c.Extern || c.Iface {
		return
	}
	fn := v.fnByKey[c.Pkg+"::"+c.Key]
	if fn == nil {
		o := &Obligation{Name: c.Key + ".contract-detached", Func: c.Key, Kind: "detached", Props: c.Props, Goal: "false",
			Clause: "contract key matches no function in " + c.Pkg, Result: "detached"}
		v.obls = append(v.obls, o)
		return
	}
	if c.Trusted {
		v.note("TRUSTED %s: %s", c.Key, c.TrustedWhy)
		return
	}
	v.verifyFunction(fn, c)
}

func runFuncs(keys []string, repo string, verbose, safety bool, timeout int) int {
	v, err := loadVerifier(repo)
	if err != nil {
		fmt.Fprintln(os.Stderr, "INTERNAL-ERROR load:", err)
		return 3
	}
	v.safetyChecks = safety
	v.prepareAxioms()
	for _, c := range v.cs.Order {
		for _, k := range keys {
			if strings.Contains(c.Key, k) {
				v.verifyContract(c)
			}
		}
	}
	if timeout == 0 {
		timeout = 10
	}
	work := filepath.Join(verifRoot(), ".work", "func")
	os.RemoveAll(work)
	v.solveAll(v.obls, work, timeout, 16)
	bad := 0
	for _, o := range v.obls {
		status := "ok"
		if o.Canary {
			if o.Result == "unsat" {
				status = "VACUOUS"
				bad++
			}
		} else if o.Result != "unsat" {
			status = "FAIL"
			bad++
		}
		if verbose || status != "ok" {
			fmt.Printf("%-8s %-9s %-8s %6.2fs %s\n", status, o.Result, o.Solver, o.Time, o.Name)
			if status != "ok" {
				fmt.Printf("         clause: %s\n         file: %s\n", o.Clause, o.File)
				if o.Output != "" {
					fmt.Printf("         output: %s\n", firstLines(o.Output, 5))
				}
			}
		}
	}
	for _, n := range v.notes {
		fmt.Println("NOTE", n)
	}
	for _, e := range v.internalErrs {
		fmt.Println("INTERNAL-ERROR", e)
	}
	fmt.Printf("%d obligations, %d not ok\n", len(v.obls), bad)
	if bad > 0 || len(v.internalErrs) > 0 {
		return 1
	}
	return 0
}

// ---- known findings ----

type KnownFinding struct {
	Status     string `json:"status"` // "open" or "fixed"
	Property   string `json:"property"`
	ID         string `json:"id"`
	Obligation string `json:"obligation"` // obligation name prefix that is expected to fail
	What       string `json:"what"`
	Witness    string `json:"witness"`
	Commit     string `json:"commit,omitempty"`
}

func loadKnownFindings() []KnownFinding {
	var kf []KnownFinding
	b, err := os.ReadFile(filepath.Join(verifRoot(), "known_findings.json"))
	if err != nil {
		return nil
	}
	if err := json.Unmarshal(b, &kf); err != nil {
		fmt.Fprintln(os.Stderr, "INTERNAL-ERROR known_findings.json:", err)
		os.Exit(3)
	}
	return kf
}

// obligation base name without the site ordinal / path suffix
func oblBase(name string) string {
	if i := strings.LastIndex(name, "#"); i >= 0 {
		return name[:i]
	}
	return name
}

type oblGroup struct {
	Name   string
	Obls   []*Obligation
	Failed []*Obligation
	Solver string
	Time   float64
	Kind   string
	Clause string
}

func runCheck(prop, tier, repo string, verbose, safety bool, timeout int) int {
	start := time.Now()
	root := verifRoot()
	seed, _ := strconv.Atoi(envOr("VERIF_SEED", "0"))
	v, err := loadVerifier(repo)
	if err != nil {
		fmt.Println("INTERNAL-ERROR load:", err)
		// a tree that does not compile is not a property violation
		return 3
	}
	v.safetyChecks = safety
	v.prepareAxioms()
	loadT := time.Since(start).Seconds()
	var funcs []string
	for _, c := range v.cs.Order {
		if c.Extern || c.Iface {
			continue
		}
		if contractHasProp(c, prop) {
			v.verifyContract(c)
			funcs = append(funcs, c.Key)
		}
	}
	// lemmas tagged with the property
	v.emitLemmas(prop)
	v.emitTypeShapes(prop)
	var obls []*Obligation
	for _, o := range v.obls {
		if oblHasProp(o, prop) || o.Canary {
			obls = append(obls, o)
		}
	}
	explicitTimeout := timeout != 0
	if timeout == 0 {
		timeout = 20
		if tier == "thorough" {
			timeout = 60
		}
	}
	work := filepath.Join(root, ".work", prop)
	if noEvidence {
		work, _ = os.MkdirTemp("", "govc_work_")
		defer os.RemoveAll(work)
	}
	os.RemoveAll(work)
	known := loadKnownFindings()
	for _, o := range obls {
		for i := range known {
			k := &known[i]
			if k.Property == prop && k.Status == "open" && strings.HasPrefix(oblBase(o.Name), k.Obligation) {
				o.Known = true
			}
		}
	}
	genT := time.Since(start).Seconds() - loadT
	v.solveAll(obls, work, timeout, 16)
	// A few obligations left undecided by time-outs may be victims of machine load (other checks running): they get a
	// second, calmer attempt (few at a time, three times the limit) before anything is reported.
	if !explicitTimeout {
		var again []*Obligation
		for _, o := range obls {
			if !o.Canary && !o.Known && !o.Preset && (o.Result == "timeout" || o.Result == "unknown") {
				again = append(again, o)
			}
		}
		if len(again) > 0 && len(again) <= 6 {
			for _, o := range again {
				o.Result, o.Solver, o.Output = "", "", ""
			}
			v.solveAll(again, filepath.Join(work, "retry"), timeout*3, 3)
			for _, o := range again {
				if o.Result == "unsat" {
					o.Solver += " (second attempt)"
				}
			}
		}
	}
	solveT := time.Since(start).Seconds() - loadT - genT

	// group by name
	groups := map[string]*oblGroup{}
	var order []string
	for _, o := range obls {
		g := groups[o.Name]
		if g == nil {
			g = &oblGroup{Name: o.Name, Kind: o.Kind, Clause: o.Clause}
			groups[o.Name] = g
			order = append(order, o.Name)
		}
		g.Obls = append(g.Obls, o)
		ok := o.Result == "unsat"
		if o.Canary {
			ok = o.Result != "unsat"
		}
		if !ok {
			g.Failed = append(g.Failed, o)
		}
		g.Time += o.Time
		if g.Solver == "" {
			g.Solver = o.Solver
		}
	}
	sort.Strings(order)
	violations := 0
	internal := len(v.internalErrs)
	var knownLines []string
	nObl, nDis, nCanary := 0, 0, 0
	var perObl []map[string]interface{}
	solverTime := 0.0
	replayDir := filepath.Join(root, "replays", prop)
	if noEvidence {
		replayDir = filepath.Join(work, "replays")
	}
	for _, name := range order {
		g := groups[name]
		solverTime += g.Time
		if g.Obls[0].Canary {
			nCanary++
			if len(g.Failed) > 0 {
				fmt.Printf("INTERNAL-ERROR VACUOUS-PRE %s: precondition/axioms unsatisfiable\n", name)
				internal++
			}
			continue
		}
		// known finding?
		var kf *KnownFinding
		for i := range known {
			k := &known[i]
			if k.Property == prop && k.Status == "open" && strings.HasPrefix(oblBase(name), k.Obligation) {
				kf = k
			}
		}
		if kf != nil {
			if len(g.Failed) > 0 {
				line := fmt.Sprintf("KNOWN-FINDING: property=%s %s [%s] obligation %s fails (%s)", prop, kf.ID, kf.What, oblBase(name), g.Failed[0].Result)
				dup := false
				for _, l := range knownLines {
					if strings.HasPrefix(l, fmt.Sprintf("KNOWN-FINDING: property=%s %s ", prop, kf.ID)) {
						dup = true // one line per listed finding, however many paths of its obligation fail
					}
				}
				if !dup {
					knownLines = append(knownLines, line)
				}
			} else {
				// the defect seems repaired: the obligation now discharges; nothing to report
				nObl++
				nDis++
			}
			continue
		}
		nObl++
		if len(g.Failed) == 0 {
			nDis++
			if verbose {
				fmt.Printf("ok   %-8s %5.2fs %s (%d paths)\n", g.Solver, g.Time, name, len(g.Obls))
			}
		} else {
			violations++
			f := g.Failed[0]
			rp := writeReplay(replayDir, prop, f, v)
			tail := ""
			confirmed := tryReplay(v, f, rp, repo)
			// the obligation failed on several paths: the replay of any of them may confirm a failing input
			for k := 1; k < len(g.Failed) && k < 4 && !confirmed; k++ {
				if g.Failed[k].RefuteModel == "" && g.Failed[k].CandidateModel == "" {
					continue
				}
				rp2 := writeReplay(replayDir, prop, g.Failed[k], v)
				if tryReplay(v, g.Failed[k], rp2, repo) {
					confirmed, f, rp = true, g.Failed[k], rp2
				}
			}
			if !confirmed {
				tail = " no-failing-input-found"
			}
			fmt.Printf("FAILED-OBLIGATION %s result=%s solver=%s clause=%q\n", name, f.Result, f.Solver, f.Clause)
			fmt.Printf("VIOLATION property=%s replay=%s%s\n", prop, rp, tail)
		}
		perObl = append(perObl, map[string]interface{}{"name": name, "kind": g.Kind, "paths": len(g.Obls), "solver": g.Solver, "time_s": round3(g.Time), "discharged": len(g.Failed) == 0})
	}
	if os.Getenv("GOVC_SLOW") != "" {
		fmt.Printf("PROF ground instantiation: %.1fs cpu in total\n", float64(groundNanos)/1e9)
		for _, o := range obls {
			if o.Wall > 2 {
				fmt.Printf("SLOW %.1fs %s %s %s\n", o.Wall, o.Result, o.Solver, o.Name)
			}
		}
	}
	for _, l := range knownLines {
		fmt.Println(l)
	}
	for _, e := range v.internalErrs {
		fmt.Println("INTERNAL-ERROR", e)
	}
	if nObl == 0 {
		fmt.Printf("INTERNAL-ERROR no obligations generated for %s\n", prop)
		internal++
	}
	wall := time.Since(start).Seconds()
	// evidence
	// bounded stand-ins (exhaustive runs of the real function over a stated finite domain): reported and recorded, never
	// counted among the discharged proof obligations
	bounded := v.runBounded(prop, root)
	var boundedEv []map[string]interface{}
	for _, b := range bounded {
		if b.OK {
			fmt.Printf("BOUNDED %s: ok, %s (bound: %s) -- bounded check of the real function, not a proof\n", b.Name, b.Cases, b.Bound)
		} else {
			violations++
			os.MkdirAll(replayDir, 0o755)
			rp := filepath.Join(replayDir, sanitizeFile(b.Name)+".json")
			rb, _ := json.MarshalIndent(map[string]interface{}{"property": prop, "obligation": b.Name, "kind": "bounded", "bound": b.Bound, "test_output": b.Output,
				"note": "the failing input is printed by the harness (BOUNDED-FAIL line): it was executed on the real function"}, "", " ")
			os.WriteFile(rp, rb, 0o644)
			fmt.Printf("FAILED-OBLIGATION %s result=bounded-check-failed clause=%q\n", b.Name, firstLines(b.Output, 4))
			fmt.Printf("VIOLATION property=%s replay=%s\n", prop, rp)
		}
		boundedEv = append(boundedEv, map[string]interface{}{"name": b.Name, "bound": b.Bound, "ok": b.OK, "cases": b.Cases})
	}
	var extra map[string]interface{}
	if len(boundedEv) > 0 {
		extra = map[string]interface{}{"bounded_checks": boundedEv, "bounded_obligations": len(boundedEv)}
	}
	if tier == "thorough" && !noEvidence {
		rep := &thoroughReport{}
		v.secondSolver(obls, rep)
		all := map[string]bool{}
		for _, ax := range v.cs.Axioms {
			all[ax.Name] = true
		}
		v.validateAxioms(prop, all, rep)
		if violations == 0 {
			selfTest(prop, root, repo, rep)
		}
		replayFindings(prop, root, known, rep)
		for _, d := range rep.Disagreements {
			fmt.Println("INTERNAL-ERROR solver disagreement:", d)
			internal++
		}
		for _, a := range rep.AxiomsFalsified {
			fmt.Println("INTERNAL-ERROR assumed axiom falsified by Go's own implementation:", a)
			internal++
		}
		for _, mname := range rep.MutantsMissed {
			fmt.Println("SELFTEST-MISSED must-fail mutant not caught:", mname)
		}
		fmt.Printf("thorough: %d/%d discharged obligations confirmed by a second solver (%d undecided by it), %d axioms validated on %d concrete evaluations (%d not evaluable), self-test %d/%d mutants caught, findings replayed: %v\n",
			rep.SecondSolverConfirmed, rep.SecondSolverConfirmed+rep.SecondSolverUndecided, rep.SecondSolverUndecided, rep.AxiomsValidated, rep.AxiomEvaluations, len(rep.AxiomsNotEvaluable), rep.MutantsCaught, rep.MutantsRun, rep.FindingsReplayed)
		if extra == nil {
			extra = map[string]interface{}{}
		}
		for k, x := range map[string]interface{}{
			"second_solver_confirmed": rep.SecondSolverConfirmed, "second_solver_undecided": rep.SecondSolverUndecided, "disagreements_checked": rep.SecondSolverConfirmed + rep.SecondSolverUndecided,
			"solver_disagreements": rep.Disagreements, "axioms_validated_concretely": rep.AxiomsValidated, "axiom_evaluations": rep.AxiomEvaluations,
			"axioms_not_evaluable": rep.AxiomsNotEvaluable, "axioms_falsified": rep.AxiomsFalsified,
			"selftest_mutants_run": rep.MutantsRun, "selftest_mutants_caught": rep.MutantsCaught, "selftest_mutants_missed": rep.MutantsMissed,
			"findings_replayed": rep.FindingsReplayed,
		} {
			extra[k] = x
		}
	}
	wall = time.Since(start).Seconds()
	if !noEvidence {
		writeEvidence(root, prop, tier, seed, v, funcs, order, groups, perObl, nObl, nDis, nCanary, violations, knownLines, wall, loadT, genT, solveT, solverTime, obls, extra)
	}
	fmt.Printf("%s: %d obligations, %d discharged, %d violations, %d known findings, %d canaries, %.1fs (load %.1f, vcgen %.1f, solve %.1f)\n",
		prop, nObl, nDis, violations, len(knownLines), nCanary, wall, loadT, genT, solveT)
	// the SMT files of a clean run are not kept (disk space); after a violation they stay for inspection
	if violations == 0 && internal == 0 && !verbose && os.Getenv("GOVC_KEEP") == "" {
		os.RemoveAll(work)
	}
	if internal > 0 {
		return 3
	}
	if violations > 0 {
		return 1
	}
	return 0
}

func round3(f float64) float64 { return float64(int(f*1000)) / 1000 }

func writeReplay(dir, prop string, o *Obligation, v *Verifier) string {
	os.MkdirAll(dir, 0o755)
	path := filepath.Join(dir, sanitizeFile(o.Name)+".json")
	smt := ""
	if o.File != "" {
		if b, err := os.ReadFile(o.File); err == nil {
			smt = string(b)
		}
	}
	m := map[string]interface{}{
		"property": prop, "obligation": o.Name, "function": o.Func, "kind": o.Kind, "clause": o.Clause,
		"result": o.Result, "solver": o.Solver, "solver_output": o.Output + o.Model, "path_trace": o.Trace, "smt2": smt,
	}
	b, _ := json.MarshalIndent(m, "", " ")
	os.WriteFile(path, b, 0o644)
	return path
}

func writeEvidence(root, prop, tier string, seed int, v *Verifier, funcs, order []string, groups map[string]*oblGroup, perObl []map[string]interface{},
	nObl, nDis, nCanary, violations int, known []string, wall, loadT, genT, solveT, solverTime float64, obls []*Obligation, extra map[string]interface{}) {
	var trusted, assumptions []string
	for _, c := range v.cs.Order {
		if c.Used && (c.Extern || c.Iface) {
			kind := "extern"
			if c.Iface {
				kind = "interface"
			}
			trusted = append(trusted, fmt.Sprintf("%s contract (assumed): %s", kind, c.Key))
		}
		if c.Used {
			for _, a := range c.Assumes {
				trusted = append(trusted, fmt.Sprintf("assumed clause of %s: %s: %s", c.Key, a.Label, a.Src))
			}
		}
		if c.TrustedFrame && contractHasProp(c, prop) {
			trusted = append(trusted, fmt.Sprintf("modifies clause assumed, not checked: %s (%s)", c.Key, c.TrustedWhy))
		}
		if c.Trusted && contractHasProp(c, prop) {
			trusted = append(trusted, fmt.Sprintf("trusted body: %s (%s)", c.Key, c.TrustedWhy))
		}
	}
	sort.Strings(trusted)
	usedAx := map[string]bool{}
	for _, o := range obls {
		if o.File == "" {
			continue
		}
		if b, err := os.ReadFile(o.File); err == nil {
			for _, l := range strings.Split(string(b), "\n") {
				if strings.HasPrefix(l, "; axiom ") {
					usedAx[strings.TrimPrefix(l, "; axiom ")] = true
				}
			}
		}
	}
	var axs []string
	for a := range usedAx {
		axs = append(axs, a)
	}
	sort.Strings(axs)
	for _, a := range axs {
		trusted = append(trusted, "axiom (assumed, see contract file): "+a)
	}
	trusted = append(trusted, "govc VC generator (SSA->SMT translation, heap/map/channel models)", "golang.org/x/tools/go/ssa v0.29.0", "SMT solvers z3 4.8.12, z3 5.1.0, cvc5 1.0.3 (first unsat wins in quick tier)")
	assumptions = append(assumptions,
		"integers are mathematical (no overflow)", "strings are byte strings encoded as SMT strings with chars <= 0xFF",
		"logging calls are no-ops on verified state", "one goroutine at a time: no interference on heap state owned by the verified goroutine",
		"termination is not proved (partial correctness)", "fresh allocations are distinct from all references obtainable before")
	for _, n := range v.notes {
		assumptions = append(assumptions, "note: "+n)
	}
	var samples []map[string]interface{}
	for _, name := range order {
		g := groups[name]
		if g.Obls[0].Canary || len(samples) >= 3 {
			continue
		}
		o := g.Obls[0]
		smt := ""
		if b, err := os.ReadFile(o.File); err == nil {
			ls := strings.Split(string(b), "\n")
			if len(ls) > 12 {
				ls = append(ls[:4], ls[len(ls)-8:]...)
			}
			smt = strings.Join(ls, "\n")
		}
		if o.Kind == "ensures" || o.Kind == "inv-pres" || len(samples) == 0 {
			samples = append(samples, map[string]interface{}{"obligation": name, "clause": o.Clause, "result": o.Result, "solver": o.Solver, "smt_excerpt": smt})
		}
	}
	if len(samples) == 0 {
		samples = append(samples, map[string]interface{}{"note": "no obligations"})
	}
	cov := map[string]interface{}{
		"obligations": nObl, "discharged": nDis, "checker_cmd": fmt.Sprintf("bin/govc check %s --tier %s", prop, tier),
		"trusted_base": trusted, "functions_under_contract": funcs, "per_obligation": perObl, "solver_time_s": round3(solverTime),
		"canaries_checked": nCanary, "known_findings": known, "samples": samples, "bounded_obligations": 0,
		"timing_s":       map[string]float64{"load": round3(loadT), "vcgen": round3(genT), "solve_wall": round3(solveT)},
		"contract_files": v.cs.Files,
	}
	for k, x := range extra {
		cov[k] = x
	}
	ev := map[string]interface{}{
		"property_id": prop, "tier": tier, "seed": seed, "level": "proof", "coverage": cov, "assumptions": assumptions,
		"wall_s": round3(wall), "violations": violations,
	}
	os.MkdirAll(filepath.Join(root, "evidence"), 0o755)
	b, _ := json.MarshalIndent(ev, "", " ")
	os.WriteFile(filepath.Join(root, "evidence", prop+".json"), b, 0o644)
}

// emitTypeShapes turns `typeshape` declarations tagged with prop into structural obligations.
func (v *Verifier) emitTypeShapes(prop string) {
	for _, ts := range v.cs.TypeShapes {
		has := false
		for _, p := range ts.Props {
			if p == prop {
				has = true
			}
		}
		if !has {
			continue
		}
		o := &Obligation{Name: "typeshape." + ts.TypeText + "." + ts.Label, Func: "typeshape", Kind: "structural", Label: ts.Label, Props: ts.Props,
			Clause: ts.TypeText + ": " + ts.Kind, Goal: "true", Preset: true, Result: "unsat", Solver: "structural-scan"}
		var pkg *types.Package
		for _, p := range v.allTypesPkgs {
			if p.Path() == ts.PkgPath {
				pkg = p
			}
		}
		var problems []string
		if pkg == nil {
			problems = append(problems, "package not loaded")
		} else {
			t, _ := v.resolveType(ts.TypeText, pkg)
			switch ts.Kind {
			case "json-roundtrip":
				problems = jsonRoundTripProblems(t, map[string]bool{}, ts.TypeText)
			default:
				problems = append(problems, "unknown typeshape kind "+ts.Kind)
			}
		}
		if len(problems) > 0 {
			o.Result = "structural-fail"
			o.Output = strings.Join(dedup(problems), "; ")
		}
		v.obls = append(v.obls, o)
	}
}

// jsonRoundTripProblems: reasons why json.Unmarshal(json.Marshal(x)) could lose information of a value of type t
// (encoding/json documentation: only exported fields are encoded; "-" tags skip a field; channels, functions and
// interfaces do not round-trip; map keys must be strings or integers; field names that collide are dropped).
func jsonRoundTripProblems(t types.Type, seen map[string]bool, path string) []string {
	if t == nil {
		return []string{path + ": unknown type"}
	}
	switch namedString(t) {
	case "time.Time", "time.Duration":
		return nil
	}
	if n, ok := types.Unalias(t).(*types.Named); ok {
		key := n.String()
		if seen[key] {
			return nil
		}
		seen[key] = true
	}
	var out []string
	switch u := t.Underlying().(type) {
	case *types.Basic:
		if u.Info()&(types.IsBoolean|types.IsString|types.IsInteger|types.IsFloat) == 0 {
			out = append(out, path+": basic type "+u.String()+" is not JSON-serialisable")
		}
	case *types.Pointer:
		out = append(out, jsonRoundTripProblems(u.Elem(), seen, path)...)
	case *types.Slice:
		out = append(out, jsonRoundTripProblems(u.Elem(), seen, path+"[]")...)
	case *types.Array:
		out = append(out, jsonRoundTripProblems(u.Elem(), seen, path+"[]")...)
	case *types.Map:
		if b, ok := u.Key().Underlying().(*types.Basic); !ok || b.Info()&(types.IsString|types.IsInteger) == 0 {
			out = append(out, path+": map key type "+u.Key().String()+" is not a JSON object key")
		}
		out = append(out, jsonRoundTripProblems(u.Elem(), seen, path+"[k]")...)
	case *types.Struct:
		names := map[string]string{}
		for i := 0; i < u.NumFields(); i++ {
			f := u.Field(i)
			fp := path + "." + f.Name()
			if !f.Exported() {
				out = append(out, fp+": unexported field is not written to the audit file")
				continue
			}
			tag := reflectTag(u.Tag(i), "json")
			name := f.Name()
			if tag != "" {
				parts := strings.Split(tag, ",")
				if parts[0] == "-" && len(parts) == 1 {
					out = append(out, fp+": json:\"-\" tag, the field is not written to the audit file")
					continue
				}
				if parts[0] != "" {
					name = parts[0]
				}
				for _, opt := range parts[1:] {
					if opt == "string" {
						out = append(out, fp+": json ',string' option changes the encoding")
					}
				}
			}
			lower := strings.ToLower(name)
			if other, dup := names[lower]; dup {
				out = append(out, fp+": JSON name collides with "+other)
			}
			names[lower] = fp
			out = append(out, jsonRoundTripProblems(f.Type(), seen, fp)...)
		}
	case *types.Interface, *types.Chan, *types.Signature:
		out = append(out, path+": "+t.String()+" does not round-trip through JSON")
	}
	return out
}

// reflectTag extracts key:"value" from a struct tag (reflect.StructTag.Get without importing reflect semantics)
func reflectTag(tag, key string) string {
	for tag != "" {
		i := 0
		for i < len(tag) && tag[i] == ' ' {
			i++
		}
		tag = tag[i:]
		if tag == "" {
			break
		}
		i = 0
		for i < len(tag) && tag[i] > ' ' && tag[i] != ':' && tag[i] != '"' && tag[i] != 0x7f {
			i++
		}
		if i == 0 || i+1 >= len(tag) || tag[i] != ':' || tag[i+1] != '"' {
			break
		}
		name := tag[:i]
		tag = tag[i+1:]
		i = 1
		for i < len(tag) && tag[i] != '"' {
			if tag[i] == '\\' {
				i++
			}
			i++
		}
		if i >= len(tag) {
			break
		}
		q := tag[:i+1]
		tag = tag[i+1:]
		if name == key {
			if v, err := strconv.Unquote(q); err == nil {
				return v
			}
			return ""
		}
	}
	return ""
}

// emitLemmas turns `lemma` declarations tagged with prop into obligations (proved from axioms declared BEFORE them).
func (v *Verifier) emitLemmas(prop string) {
	for i, ax := range v.cs.Axioms {
		if !ax.Lemma {
			continue
		}
		has := false
		for _, p := range ax.Props {
			if p == prop {
				has = true
			}
		}
		if !has {
			continue
		}
		o := &Obligation{Name: "lemma." + ax.Name, Func: "lemma", Kind: "lemma", Props: ax.Props, Clause: ax.Src, Goal: v.axioms[i].SMT}
		o.Consts = []string{}
		o.Asserts = []string{}
		o.lemmaIdx = i
		v.obls = append(v.obls, o)
	}
}

var _ = ssa.GlobalDebug
