package main

import (
	"fmt"
	"go/token"
	"go/types"
	"strings"

	"golang.org/x/tools/go/ssa"
)

// calleeContract finds the contract that governs a call site (nil = unknown callee).
func (x *fnExec) calleeContract(call *ssa.CallCommon) *FuncContract {
	v := x.v
	if call.IsInvoke() {
		k := ifaceKey(call.Value.Type(), call.Method.Name())
		if c, ok := v.cs.Funcs["::"+k]; ok {
			c.ifaceRecv = call.Value.Type()
			return c
		}
		return nil
	}
	if fn := call.StaticCallee(); fn != nil {
		return v.contractFor(fn)
	}
	if k := x.dynCalleeKey(call.Value); k != "" {
		if c, ok := v.cs.Funcs["::"+k]; ok {
			return c
		}
	}
	return nil
}

func (x *fnExec) bindResults(st *State, call *ssa.Call, res []Term) {
	sig := call.Call.Signature()
	n := sig.Results().Len()
	switch {
	case n == 0:
	case n == 1:
		if len(res) == 1 {
			st.vals[call] = res[0]
		}
	default:
		st.tuples[call] = res
	}
}

// doCall handles call, go and defer(run) uniformly. mode: "call" "go" "defer".
func (x *fnExec) doCall(st *State, site ssa.Instruction, call *ssa.CallCommon, mode string) ([]Term, bool) {
	v := x.v
	if b, ok := call.Value.(*ssa.Builtin); ok {
		bname := x.calleeName(call)
		for _, ac := range x.c.AtCall {
			if ac.Target == bname && mode != "go" {
				x.clauseHit[ac] = true
				actx := x.ctx(st)
				for ai, a := range call.Args {
					actx.vars[fmt.Sprintf("$arg%d", ai)] = x.val(st, a)
				}
				g := x.evalClause(st, actx, ac)
				x.emit(st, fmt.Sprintf("atcall.%s.%s#%d", bname, ac.Label, x.siteOrd[site]), "atcall", ac.Label, ac.Props, g, "before "+bname+": "+ac.Src)
			}
		}
		return x.doBuiltin(st, site, b, call)
	}
	sig := call.Signature()
	// argument terms (receiver first for invoke)
	var args []Term
	if call.IsInvoke() {
		recv := x.val(st, call.Value)
		args = append(args, recv)
		// a method call on a nil interface value panics (non-zero exit); execution continues only with a non-nil receiver
		if mode != "go" && mode != "defer" {
			st.assume(not(eq(recv.S, "0")))
		}
	}
	for _, a := range call.Args {
		args = append(args, x.argVal(st, a))
	}
	c := x.calleeContract(call)
	name := x.calleeName(call)
	ord := x.siteOrd[site]
	for _, ac := range x.c.AssumeCall {
		if ac.Target == name {
			actx := x.ctx(st)
			for ai, a := range args {
				actx.vars[fmt.Sprintf("$arg%d", ai)] = a
			}
			st.assume(x.evalClause(st, actx, ac))
			v.note("%s: ASSUMED before %s: %s", x.fnName(), name, ac.Src)
		}
	}
	if mode == "go" {
		for _, ac := range x.c.AtGo {
			if ac.Target == name {
				x.clauseHit[ac] = true
				actx := x.ctx(st)
				for ai, a := range args {
					actx.vars[fmt.Sprintf("$arg%d", ai)] = a
				}
				g := x.evalClause(st, actx, ac)
				x.emit(st, fmt.Sprintf("atgo.%s.%s#%d", name, ac.Label, ord), "atgo", ac.Label, ac.Props, g, "before go "+name+": "+ac.Src)
			}
		}
	}
	for _, ac := range x.c.AtCall {
		// strings.ReplaceAll(s, old, new) is strings.Replace(s, old, new, -1): clauses written for the one also bind the other
		alias := ac.Target == "strings.Replace" && name == "strings.ReplaceAll" && len(args) == 3
		if (ac.Target == name || alias) && mode != "go" {
			x.clauseHit[ac] = true
			actx := x.ctx(st)
			for ai, a := range args {
				actx.vars[fmt.Sprintf("$arg%d", ai)] = a
			}
			if alias {
				actx.vars["$arg3"] = mkTerm("(- 1)", sInt, types.Typ[types.Int])
			}
			g := x.evalClause(st, actx, ac)
			x.emit(st, fmt.Sprintf("atcall.%s.%s#%d", ac.Target, ac.Label, ord), "atcall", ac.Label, ac.Props, g, "before "+name+": "+ac.Src)
		}
	}
	var callee *ssa.Function
	if !call.IsInvoke() {
		callee = call.StaticCallee()
	}
	// closure bindings become extra arguments named after the free variables
	var fvNames []string
	if mc, ok := call.Value.(*ssa.MakeClosure); ok && callee != nil {
		for k, b := range mc.Bindings {
			args = append(args, x.val(st, b))
			fvNames = append(fvNames, callee.FreeVars[k].Name())
		}
	}
	// (*regexp.Regexp).MatchString on a regexp compiled from a literal: interpreted exactly by the SMT theory of
	// regular expressions (assumption: Go's regexp and SMT-LIB agree on the supported subset)
	if callee != nil && callee.String() == "(*regexp.Regexp).MatchString" && len(args) == 2 && args[0].HasRegex {
		if t, err := reMatchTerm(args[1].S, args[0].RegexLit); err == nil {
			v.note("regexp %q: MatchString interpreted by SMT regular expressions", args[0].RegexLit)
			return []Term{mkTerm(t, sBool, types.Typ[types.Bool])}, true
		}
	}
	if c == nil {
		if ci, ok := site.(*ssa.Call); ok && mode == "call" && callee != nil && len(st.inline) < 2 && x.inlinable(callee, st) {
			// a repository function without contract, without loops, defers, go statements or channel operations: executed
			// inline (as if its body stood at the call site) instead of being treated as an unknown call
			v.note("%s: call of %s has no contract: its loop-free body is executed inline", x.fnName(), name)
			for k, p := range callee.Params {
				if k < len(args) {
					st.vals[p] = args[k]
				}
			}
			st.inline = append(st.inline[:len(st.inline):len(st.inline)], ci)
			x.execBlock(st, callee.Blocks[0], nil)
			return nil, false
		}
		return x.unknownCall(st, name, sig, mode), true
	}
	c.Used = true
	// parameter names
	var names []string
	if callee != nil {
		names = sigParamNames(callee)
	} else {
		if call.IsInvoke() {
			names = append(names, "self")
		}
		for i := 0; i < sig.Params().Len(); i++ {
			n := sig.Params().At(i).Name()
			if n == "" || n == "_" {
				n = fmt.Sprintf("arg%d", i)
			}
			names = append(names, n)
		}
	}
	if len(c.ParamNames) > 0 {
		base := len(names)
		if len(c.ParamNames) == base {
			names = append([]string{}, c.ParamNames...)
		} else if call.IsInvoke() && len(c.ParamNames) == base-1 {
			names = append([]string{"self"}, c.ParamNames...)
		} else {
			v.internalErr("contract %s names %d parameters, call has %d", c.Key, len(c.ParamNames), base)
		}
	}
	names = append(names, fvNames...)
	pkg := v.pkgOf(c)
	if pkg == nil {
		pkg = x.pkg
	}
	vars := map[string]Term{}
	for i, n := range names {
		if i < len(args) {
			vars[n] = args[i]
		}
	}
	// free variables of closures are captured by reference: expose the content under the variable's name
	for k, n := range fvNames {
		b := args[len(args)-len(fvNames)+k]
		if pt, ok := b.T.Underlying().(*types.Pointer); ok {
			l := x.cellLoc(b.S, pt.Elem())
			vars[n] = x.readLoc(st, l)
		}
	}
	// a dynamically called function value (read from a field, a map of functions, a parameter) is visible as $fn
	if callee == nil && !call.IsInvoke() {
		vars["$fn"] = x.val(st, call.Value)
	}
	pre := &EvalCtx{v: v, pkg: pkg, vars: vars, st: st}
	if mode != "defer-skip-pre" {
		for _, r := range c.Requires {
			t, err := x.evalIn(st, pre, r.E)
			if err != nil {
				fail("%s: call-pre %s.%s: %v", x.fnName(), c.Key, r.Label, err)
			}
			x.emit(st, fmt.Sprintf("call-pre.%s.%s#%d", name, r.Label, ord), "call-pre", r.Label, unionProps(r.Props, x.allProps()), t.S, c.Key+" requires "+r.Src)
		}
	}
	// snapshot, havoc, assume post
	oldHeap := st.snapshot()
	oldAlloc := st.heapGet(v, "$alloc", sInt)
	mods := c.Modifies
	ens := c.Ensures
	if mode == "go" {
		mods = c.SpawnMods
		ens = c.OnSpawn
	}
	x.applyModifies(st, c, mods, pre, oldAlloc)
	// in-place mutation of slice arguments by library functions (sort.*): the SSA value (and the cell it was
	// loaded from) gets a fresh value; the contract sees the old value as <name>0
	for _, mname := range c.Mutates {
		for i, n := range names {
			if n != mname || i >= len(args) {
				continue
			}
			ai := i
			if call.IsInvoke() {
				ai = i - 1
			}
			if ai < 0 || ai >= len(call.Args) {
				continue
			}
			root := call.Args[ai]
			if mi, ok := root.(*ssa.MakeInterface); ok {
				root = mi.X
			}
			if ct, ok := root.(*ssa.ChangeType); ok {
				root = ct.X
			}
			oldT := x.val(st, root)
			if !isSliceSort(oldT.Sort) {
				fail("mutates %s of %s: argument is not a slice value", mname, c.Key)
			}
			nw := mkTerm(st.fresh(v, "mut_"+mname, oldT.Sort), oldT.Sort, oldT.T)
			x.typeFacts(st, nw, true)
			vars[mname] = nw
			vars[mname+"0"] = oldT
			st.vals[root] = nw
			if ld, ok := root.(*ssa.UnOp); ok && ld.Op == token.MUL {
				if l, ok := x.locOf(st, ld.X); ok {
					x.writeLoc(st, l, nw)
				}
			}
		}
	}
	if mode == "go" {
		post := &EvalCtx{v: v, pkg: pkg, vars: vars, st: st, old: oldHeap}
		for _, e := range ens {
			t, err := x.evalIn(st, post, e.E)
			if err != nil {
				fail("%s: onspawn %s.%s: %v", x.fnName(), c.Key, e.Label, err)
			}
			st.assume(t.S)
		}
		return nil, true
	}
	// results
	var res []Term
	rn := sigResultNames(sig)
	if len(c.ResNames) == len(rn) {
		rn = c.ResNames
	}
	for i := 0; i < sig.Results().Len(); i++ {
		rt := sig.Results().At(i).Type()
		s := v.decls.sortOf(rt)
		t := mkTerm(st.fresh(v, "r_"+shortName(name), s), s, rt)
		x.typeFacts(st, t, true)
		res = append(res, t)
		vars[rn[i]] = t
	}
	if c.NoReturn {
		return nil, false
	}
	post := &EvalCtx{v: v, pkg: pkg, vars: vars, st: st, old: oldHeap}
	for _, e := range append(append([]*Clause{}, ens...), c.Assumes...) {
		t, err := x.evalIn(st, post, e.E)
		if err != nil {
			fail("%s: call-post %s.%s: %v", x.fnName(), c.Key, e.Label, err)
		}
		st.assume(t.S)
	}
	// regex literal tracking
	if callee != nil && (callee.String() == "regexp.MustCompile" || callee.String() == "regexp.Compile") && len(res) > 0 {
		if cst, ok := call.Args[0].(*ssa.Const); ok {
			res[0].HasRegex = true
			res[0].RegexLit = constantString(cst)
		}
	}
	return res, true
}

func constantString(c *ssa.Const) string {
	if c.Value == nil {
		return ""
	}
	s := c.Value.ExactString()
	if len(s) >= 2 && s[0] == '"' {
		var out string
		fmt.Sscanf(s, "%q", &out)
		return out
	}
	return s
}

func shortName(s string) string {
	if i := strings.LastIndexAny(s, "./"); i >= 0 {
		s = s[i+1:]
	}
	return smtIdent(s)
}

func unionProps(a, b []string) []string {
	seen := map[string]bool{}
	var out []string
	for _, p := range append(append([]string{}, a...), b...) {
		if !seen[p] {
			seen[p] = true
			out = append(out, p)
		}
	}
	return out
}

func mergeProps(a, b []string) []string {
	if len(a) > 0 {
		return a
	}
	return b
}

func (x *fnExec) argVal(st *State, a ssa.Value) Term {
	if t, ok := st.vals[a]; ok {
		return t
	}
	return x.val(st, a)
}

// modSingle: if the modifies target names a single object, return its ref term ("" = whole array)
func (x *fnExec) modSingle(m string, c *FuncContract, ctx *EvalCtx) string {
	v := x.v
	m = strings.TrimSpace(m)
	if strings.HasPrefix(m, "new(") {
		return "$none"
	}
	if strings.HasPrefix(m, "chan(") && strings.HasSuffix(m, ")") {
		e, err := parseExpr(m[5 : len(m)-1])
		if err != nil {
			fail("modifies %s: %v", m, err)
		}
		return ctx.eval(e).S
	}
	if strings.HasSuffix(m, "[*]") {
		e, err := parseExpr(strings.TrimSuffix(m, "[*]"))
		if err != nil {
			fail("modifies %s: %v", m, err)
		}
		return ctx.eval(e).S
	}
	if strings.HasPrefix(m, "map[") || m == "*" || m == "chan" || m == "cells" || m == "chanrecv" || m == "chansend" || m == "chanclose" {
		return ""
	}
	if i := strings.LastIndex(m, "."); i >= 0 && !isTypeName(v, m[:i], v.pkgOf(c)) {
		e, err := parseExpr(m[:i])
		if err != nil {
			fail("modifies %s: %v", m, err)
		}
		bt := ctx.eval(e)
		return x.innerRefCtx(ctx, bt, m[i+1:], v.pkgOf(c))
	}
	return ""
}

// applyModifies havocs what the callee may modify and assumes the frame for single-object targets.
func (x *fnExec) applyModifies(st *State, c *FuncContract, mods []string, pre *EvalCtx, oldAlloc string) {
	v := x.v
	whole := map[string]bool{}
	locs := map[string][]string{}
	var order []string
	hasFresh := false
	for _, m := range mods {
		if strings.TrimSpace(m) == "fresh" {
			// `fresh`: the callee allocates and initialises objects. Arrays that are not listed keep their symbol: the
			// contents of not-yet-allocated indices are arbitrary, so the callee's postconditions about its fresh objects
			// simply reveal them (every assumption about array contents is guarded by allocatedness).
			hasFresh = true
		}
	}
	for _, m := range mods {
		m = strings.TrimSpace(m)
		if m == "fresh" {
			continue
		}
		if m == "*" {
			x.havocAll(st)
			return
		}
		single := x.modSingle(m, c, pre)
		names, all := x.modTargetHeaps(m, c)
		if all {
			x.havocAll(st)
			return
		}
		for _, n := range names {
			if _, seen := locs[n]; !seen && !whole[n] {
				order = append(order, n)
			}
			if single == "" {
				whole[n] = true
			} else if single == "$none" {
				if locs[n] == nil {
					locs[n] = []string{}
				}
			} else {
				locs[n] = append(locs[n], single)
			}
		}
	}
	// the callee may allocate
	x.bumpAlloc(st)
	for _, n := range order {
		hs := v.heapSorts[n]
		if whole[n] {
			st.heapHavoc(v, n, hs)
			continue
		}
		// Single-object targets: the array changes only at the targets. Objects allocated by the callee need no
		// treatment: the contents of not-yet-allocated indices are arbitrary, so the callee's postconditions about
		// its fresh objects simply reveal them (every assumption about array contents is guarded by allocatedness).
		if len(locs[n]) == 0 {
			continue // new(...) only: nothing changes at existing objects
		}
		_, es := splitArraySort(hs)
		cur := st.heapGet(v, n, hs)
		for _, r := range locs[n] {
			c := st.fresh(v, "mod_"+n, es)
			cur = store(cur, r, c)
		}
		st.heapSet(v, n, hs, cur)
	}
	_ = hasFresh
}

func (x *fnExec) innerRefCtx(c *EvalCtx, base Term, field string, pkg *types.Package) string {
	v := x.v
	obj, index, _ := types.LookupFieldOrMethod(base.T, true, pkg, field)
	if obj == nil || len(index) <= 1 {
		return base.S
	}
	cur := base
	for _, idx := range index[:len(index)-1] {
		st, named := derefStruct(cur.T)
		cur = v.fieldRead(c, cur.S, named, st, idx)
	}
	return cur.S
}

func (x *fnExec) unknownCall(st *State, name string, sig *types.Signature, mode string) []Term {
	v := x.v
	v.note("%s: call of %s has no contract: heap and ghost state havocked", x.fnName(), name)
	x.havocAll(st)
	if mode == "go" {
		return nil
	}
	var res []Term
	for i := 0; i < sig.Results().Len(); i++ {
		rt := sig.Results().At(i).Type()
		s := v.decls.sortOf(rt)
		t := mkTerm(st.fresh(v, "u_"+shortName(name), s), s, rt)
		x.typeFacts(st, t, true)
		res = append(res, t)
	}
	return res
}

func (x *fnExec) doBuiltin(st *State, site ssa.Instruction, b *ssa.Builtin, call *ssa.CallCommon) ([]Term, bool) {
	v := x.v
	switch b.Name() {
	case "len", "cap":
		a := x.val(st, call.Args[0])
		switch {
		case a.Sort == sString:
			return []Term{mkTerm("(str.len "+a.S+")", sInt, types.Typ[types.Int])}, true
		case isSliceSort(a.Sort):
			if b.Name() == "cap" {
				t := mkTerm(st.fresh(v, "cap", sInt), sInt, types.Typ[types.Int])
				st.assume("(>= " + t.S + " " + sliceLen(a) + ")")
				return []Term{t}, true
			}
			return []Term{mkTerm(sliceLen(a), sInt, types.Typ[types.Int])}, true
		}
		if mt, ok := call.Args[0].Type().Underlying().(*types.Map); ok {
			ln := x.mapLenFacts(st, a.S, mt)
			return []Term{mkTerm(ln, sInt, types.Typ[types.Int])}, true
		}
		if _, ok := call.Args[0].Type().Underlying().(*types.Chan); ok {
			if b.Name() == "cap" {
				v.decls.add("fun:CH_cap", "(declare-fun CH_cap (Int) Int)")
				return []Term{mkTerm("(CH_cap "+a.S+")", sInt, types.Typ[types.Int])}, true
			}
			t := mkTerm(st.fresh(v, "chlen", sInt), sInt, types.Typ[types.Int])
			st.assume("(>= " + t.S + " 0)")
			return []Term{t}, true
		}
		fail("len/cap of %v", call.Args[0].Type())
	case "append":
		s := x.val(st, call.Args[0])
		if len(call.Args) == 1 {
			return []Term{s}, true
		}
		t := x.val(st, call.Args[1])
		if s.Sort == sString {
			return []Term{mkTerm("(str.++ "+s.S+" "+t.S+")", sString, call.Args[0].Type())}, true
		}
		if !isSliceSort(s.Sort) || s.Sort != t.Sort {
			fail("append on sorts %s %s", s.Sort, t.Sort)
		}
		el := sliceElem[s.Sort]
		if t.KnownLen >= 0 && t.KnownLen <= 8 {
			elems := sliceElems(s)
			for k := 0; k < t.KnownLen; k++ {
				elems = store(elems, "(+ "+sliceLen(s)+" "+fmt.Sprint(k)+")", sel(sliceElems(t), fmt.Sprint(k)))
			}
			r := mkTerm(st.fresh(v, "app", s.Sort), s.Sort, call.Args[0].Type())
			st.assume(eq(r.S, mkSlice(s.Sort, "(+ "+sliceLen(s)+" "+fmt.Sprint(t.KnownLen)+")", elems)))
			return []Term{r}, true
		}
		arr := st.fresh(v, "appel", arrSort(sInt, el))
		ls, lt := sliceLen(s), sliceLen(t)
		st.assume("(forall ((j!a Int)) (=> (and (<= 0 j!a) (< j!a " + ls + ")) (= " + sel(arr, "j!a") + " " + sel(sliceElems(s), "j!a") + ")))")
		st.assume("(forall ((j!a Int)) (=> (and (<= 0 j!a) (< j!a " + lt + ")) (= " + sel(arr, "(+ "+ls+" j!a)") + " " + sel(sliceElems(t), "j!a") + ")))")
		r := mkTerm(st.fresh(v, "app", s.Sort), s.Sort, call.Args[0].Type())
		st.assume(eq(r.S, mkSlice(s.Sort, "(+ "+ls+" "+lt+")", arr)))
		return []Term{r}, true
	case "delete":
		m := x.val(st, call.Args[0])
		k := x.val(st, call.Args[1])
		mt := call.Args[0].Type().Underlying().(*types.Map)
		x.mapDelete(st, m.S, mt, k.S)
		return nil, true
	case "close":
		ch := x.val(st, call.Args[0])
		ct := call.Args[0].Type().Underlying().(*types.Chan)
		x.chanHeapVars(ct.Elem())
		closed := st.heapGet(v, "CH_closed", arrSort(sInt, sBool))
		x.safety(st, site, "close-of-closed", not(sel(closed, ch.S)))
		st.heapSet(v, "CH_closed", arrSort(sInt, sBool), store(closed, ch.S, "true"))
		return nil, true
	case "print", "println":
		return nil, true
	case "panic":
		return nil, false
	case "copy":
		v.note("%s: builtin copy is havocked", x.fnName())
		x.havocAll(st)
		t := mkTerm(st.fresh(v, "copyn", sInt), sInt, types.Typ[types.Int])
		return []Term{t}, true
	}
	fail("unsupported builtin %s", b.Name())
	return nil, false
}

// checkEffects emits the crash-invariant obligations after an effectful call.
func (x *fnExec) checkEffects(st *State, site ssa.Instruction) {
	if len(x.c.Effects) == 0 {
		return
	}
	var call *ssa.CallCommon
	switch s := site.(type) {
	case *ssa.Call:
		call = &s.Call
	case *ssa.Defer:
		call = &s.Call
	default:
		return
	}
	mods, all := x.callModifies(call, false)
	touches := all
	for _, m := range mods {
		if m == "$fresh" {
			continue
		}
		if strings.HasPrefix(m, "GH_eff") {
			touches = true
		}
	}
	if !touches {
		return
	}
	c := x.ctx(st)
	name := x.calleeName(call)
	ord := x.siteOrd[site]
	for _, e := range x.c.Effects {
		g := x.evalClause(st, c, e)
		x.emit(st, fmt.Sprintf("effects.%s@%s#%d", e.Label, name, ord), "effects", e.Label, e.Props, g, e.Src)
	}
}

// inlinable: may a contract-less callee be executed inline? (repository code, has a body, no loops, no defers, no go,
// no select/send/receive, not recursive with respect to the current inline stack)
func (x *fnExec) inlinable(callee *ssa.Function, st *State) bool {
	if callee == x.fn || len(callee.Blocks) == 0 || len(callee.FreeVars) > 0 {
		return false
	}
	pkg := fnPkg(callee)
	if pkg == nil || !x.v.isRepoPkg(pkg.Pkg.Path()) {
		return false
	}
	for _, c := range st.inline {
		if c.Call.StaticCallee() == callee {
			return false
		}
	}
	if r, ok := x.v.inlinableCache[callee]; ok {
		return r
	}
	ok := true
	tmp := &fnExec{v: x.v, fn: callee, loops: map[*ssa.BasicBlock]*loopInfo{}}
	tmp.findLoops()
	if len(tmp.loops) > 0 {
		ok = false
	}
	for _, b := range callee.Blocks {
		for _, in := range b.Instrs {
			switch u := in.(type) {
			case *ssa.Defer, *ssa.RunDefers, *ssa.Go, *ssa.Select, *ssa.Send, *ssa.MakeClosure, *ssa.Range, *ssa.Next:
				ok = false
			case *ssa.UnOp:
				if u.Op == token.ARROW {
					ok = false
				}
			}
		}
	}
	x.v.inlinableCache[callee] = ok
	return ok
}
