package main

// Ground-instantiation pre-pass ("own E-matching"): top-level universally quantified ASSUMPTIONS are instantiated
// with the ground terms of the query and then dropped. Dropping assumptions is sound for proving (unsat); the goal
// is never touched. Used as a second attempt for obligations whose quantified form the solvers cannot decide
// (string/regex-heavy VCs, where quantifiers switch the solvers into weak modes).

import (
	"sort"
	"strings"
)

type sx struct {
	atom string
	kids []*sx
}

func (s *sx) isAtom() bool { return s.kids == nil }

func parseSx(src string) []*sx {
	var out []*sx
	i := 0
	for {
		e, ni, ok := parseOne(src, i)
		if !ok {
			return out
		}
		out = append(out, e)
		i = ni
	}
}

func parseOne(src string, i int) (*sx, int, bool) {
	n := len(src)
	for i < n && (src[i] == ' ' || src[i] == '\n' || src[i] == '\t' || src[i] == '\r') {
		i++
	}
	if i >= n {
		return nil, i, false
	}
	switch src[i] {
	case '(':
		e := &sx{kids: []*sx{}}
		i++
		for {
			for i < n && (src[i] == ' ' || src[i] == '\n' || src[i] == '\t' || src[i] == '\r') {
				i++
			}
			if i >= n {
				return e, i, true
			}
			if src[i] == ')' {
				return e, i + 1, true
			}
			k, ni, ok := parseOne(src, i)
			if !ok {
				return e, ni, true
			}
			e.kids = append(e.kids, k)
			i = ni
		}
	case '"':
		j := i + 1
		for j < n {
			if src[j] == '"' {
				if j+1 < n && src[j+1] == '"' {
					j += 2
					continue
				}
				break
			}
			j++
		}
		return &sx{atom: src[i : j+1]}, j + 1, true
	case '|':
		j := strings.IndexByte(src[i+1:], '|')
		return &sx{atom: src[i : i+j+2]}, i + j + 2, true
	}
	j := i
	for j < n && !strings.ContainsRune(" \n\t\r()", rune(src[j])) {
		j++
	}
	return &sx{atom: src[i:j]}, j, true
}

func (s *sx) String() string {
	if s.isAtom() {
		return s.atom
	}
	var sb strings.Builder
	s.write(&sb)
	return sb.String()
}

func (s *sx) write(sb *strings.Builder) {
	if s.isAtom() {
		sb.WriteString(s.atom)
		return
	}
	sb.WriteByte('(')
	for i, k := range s.kids {
		if i > 0 {
			sb.WriteByte(' ')
		}
		k.write(sb)
	}
	sb.WriteByte(')')
}

var smtBuiltin = map[string]bool{
	"and": true, "or": true, "not": true, "=>": true, "=": true, "ite": true, "distinct": true, "+": true, "-": true, "*": true,
	"div": true, "mod": true, "<": true, "<=": true, ">": true, ">=": true, "forall": true, "exists": true, "let": true,
	"store": true, "as": true, "const": true, "true": true, "false": true, "_": true,
}

func isBuiltinHead(h string) bool {
	if smtBuiltin[h] {
		return true
	}
	return strings.HasPrefix(h, "str.") || strings.HasPrefix(h, "re.") || strings.HasPrefix(h, "mk_Slice")
}

func containsVar(s *sx, vars map[string]bool) bool {
	if s.isAtom() {
		return vars[s.atom]
	}
	for _, k := range s.kids {
		if containsVar(k, vars) {
			return true
		}
	}
	return false
}

func varsIn(s *sx, vars map[string]bool, out map[string]bool) {
	if s.isAtom() {
		if vars[s.atom] {
			out[s.atom] = true
		}
		return
	}
	for _, k := range s.kids {
		varsIn(k, vars, out)
	}
}

// candidatePatterns: application subterms with a non-builtin head (or select) that mention all bound variables.
func candidatePatterns(body *sx, vars map[string]bool, out *[]*sx) {
	if body.isAtom() {
		return
	}
	if len(body.kids) > 0 && body.kids[0].isAtom() {
		h := body.kids[0].atom
		if h == "forall" || h == "exists" {
			// do not look inside nested quantifiers for patterns of the outer one (their variables differ)
			if len(body.kids) == 3 {
				candidatePatterns(body.kids[2], vars, out)
			}
			return
		}
		if !isBuiltinHead(h) || h == "select" {
			got := map[string]bool{}
			varsIn(body, vars, got)
			if len(got) == len(vars) {
				// a bare (select x v) with x a variable-free array and v a variable is fine; a bare variable application is not
				*out = append(*out, body)
			}
		}
	}
	for _, k := range body.kids {
		candidatePatterns(k, vars, out)
	}
}

func sxSize(s *sx) int {
	if s.isAtom() {
		return 1
	}
	n := 1
	for _, k := range s.kids {
		n += sxSize(k)
	}
	return n
}

// match pattern p (with variables) against ground term t.
func sxMatch(p, t *sx, vars map[string]bool, bind map[string]*sx) bool {
	if p.isAtom() {
		if vars[p.atom] {
			if b, ok := bind[p.atom]; ok {
				return b.String() == t.String()
			}
			bind[p.atom] = t
			return true
		}
		return t.isAtom() && t.atom == p.atom
	}
	if t.isAtom() || len(p.kids) != len(t.kids) {
		return false
	}
	for i := range p.kids {
		if !sxMatch(p.kids[i], t.kids[i], vars, bind) {
			return false
		}
	}
	return true
}

func sxSubst(s *sx, bind map[string]*sx) *sx {
	if s.isAtom() {
		if b, ok := bind[s.atom]; ok {
			return b
		}
		return s
	}
	n := &sx{kids: make([]*sx, len(s.kids))}
	for i, k := range s.kids {
		n.kids[i] = sxSubst(k, bind)
	}
	return n
}

func collectGround(s *sx, bound map[string]bool, out map[string]*sx) {
	if s.isAtom() {
		return
	}
	if len(s.kids) > 0 && s.kids[0].isAtom() && (s.kids[0].atom == "forall" || s.kids[0].atom == "exists") && len(s.kids) == 3 {
		nb := map[string]bool{}
		for k := range bound {
			nb[k] = true
		}
		for _, v := range s.kids[1].kids {
			if len(v.kids) > 0 {
				nb[v.kids[0].atom] = true
			}
		}
		collectGround(s.kids[2], nb, out)
		return
	}
	if !containsVar(s, bound) {
		out[s.String()] = s
	}
	for _, k := range s.kids {
		collectGround(k, bound, out)
	}
}

type quantAssump struct {
	vars     map[string]bool
	varOrder []string
	body     *sx
	patterns []*sx
	orig     string
	extra    bool // hoisted from an assertion that is also kept as it is
	multi    map[string]*sx // multi-pattern: one single-variable pattern per variable (when no single term mentions all variables)
}

// groundInstantiate takes assumption texts and the goal text; returns new assumption texts where top-level
// foralls with usable patterns are replaced by their instances (up to `rounds` rounds).
// literalEqualities finds top-level facts (= t lit) / (= lit t) with lit a literal, to rewrite t by lit (a cheap
// stand-in for matching modulo equalities).
func literalEqualities(e *sx, out map[string]string) {
	if e.isAtom() || len(e.kids) == 0 || !e.kids[0].isAtom() {
		return
	}
	switch e.kids[0].atom {
	case "and":
		for _, k := range e.kids[1:] {
			literalEqualities(k, out)
		}
	case "=":
		if len(e.kids) == 3 {
			a, b := e.kids[1], e.kids[2]
			if isLiteral(b) && !a.isAtom() {
				out[a.String()] = b.String()
			} else if isLiteral(a) && !b.isAtom() {
				out[b.String()] = a.String()
			}
		}
	}
}

func isLiteral(s *sx) bool {
	if !s.isAtom() || s.atom == "" {
		return false
	}
	c := s.atom[0]
	return c == '"' || (c >= '0' && c <= '9')
}

// skolemizeGoal: a goal (forall (x..) body) is proved by proving body for fresh constants.
func skolemizeGoalMode(goal string, extended bool) (string, []string) {
	if extended {
		return skolemizeGoal(goal)
	}
	es := parseSx(goal)
	if len(es) != 1 {
		return goal, nil
	}
	e := es[0]
	var decls []string
	for !e.isAtom() && len(e.kids) == 3 && e.kids[0].isAtom() && e.kids[0].atom == "forall" {
		bind := map[string]*sx{}
		for _, v := range e.kids[1].kids {
			if len(v.kids) == 2 {
				name := "sk!" + strings.ReplaceAll(v.kids[0].atom, "!", "_")
				bind[v.kids[0].atom] = &sx{atom: name}
				decls = append(decls, "(declare-const "+name+" "+v.kids[1].String()+")")
			}
		}
		e = sxSubst(e.kids[2], bind)
	}
	return e.String(), decls
}

func skolemizeGoal(goal string) (string, []string) {
	es := parseSx(goal)
	if len(es) != 1 {
		return goal, nil
	}
	var decls []string
	n := 0
	var sk func(e *sx) *sx
	// universally quantified subformulas in positive position of the goal (top level, consequents of implications,
	// conjuncts) become fresh constants
	sk = func(e *sx) *sx {
		if e.isAtom() || len(e.kids) == 0 || !e.kids[0].isAtom() {
			return e
		}
		switch e.kids[0].atom {
		case "forall":
			if len(e.kids) != 3 {
				return e
			}
			bind := map[string]*sx{}
			for _, v := range e.kids[1].kids {
				if len(v.kids) == 2 {
					n++
					name := "sk!" + strings.ReplaceAll(v.kids[0].atom, "!", "_")
					if n > 1 {
						name += "_" + strconvItoa(n)
					}
					bind[v.kids[0].atom] = &sx{atom: name}
					decls = append(decls, "(declare-const "+name+" "+v.kids[1].String()+")")
				}
			}
			return sk(sxSubst(e.kids[2], bind))
		case "=>":
			if len(e.kids) >= 3 {
				k := append([]*sx{}, e.kids...)
				k[len(k)-1] = sk(k[len(k)-1])
				return &sx{kids: k}
			}
		case "and":
			k := []*sx{e.kids[0]}
			for _, c := range e.kids[1:] {
				k = append(k, sk(c))
			}
			return &sx{kids: k}
		}
		return e
	}
	r := sk(es[0])
	return r.String(), decls
}

func groundInstantiateMode(assumps []string, goal string, rounds int, maxInst int, extended bool) ([]string, int, int, string) {
	if extended {
		return groundInstantiate(assumps, goal, 5, 800, true)
	}
	return groundInstantiate(assumps, goal, rounds, maxInst, false)
}

func groundInstantiate(assumps []string, goal string, rounds int, maxInst int, extended bool) (out []string, dropped int, instances int, newGoal string) {
	// rewrite by literal equalities first
	eqs := map[string]string{}
	for _, a := range assumps {
		for _, e := range parseSx(a) {
			literalEqualities(e, eqs)
		}
	}
	if len(eqs) > 0 {
		var olds []string
		for k := range eqs {
			olds = append(olds, k)
		}
		sort.Slice(olds, func(i, j int) bool { return len(olds[i]) > len(olds[j]) })
		rewrite := func(t string) string {
			for _, o := range olds {
				if strings.Contains(t, o) {
					// keep the defining equality itself intact
					t2 := strings.ReplaceAll(t, o, eqs[o])
					t = t2
				}
			}
			return t
		}
		var na []string
		for _, a := range assumps {
			na = append(na, rewrite(a))
		}
		for o, l := range eqs {
			na = append(na, "(= "+o+" "+l+")")
		}
		assumps = na
		goal = rewrite(goal)
	}
	// select-over-store simplification along the definitions of local cell arrays ((= A (store B i v)) facts): makes the
	// value of a captured / address-taken local syntactically equal to the term it was initialised with, so that the
	// matching below (which is purely syntactic) sees through closures' cells
	{
		defs := map[string]*sx{}
		for _, a := range assumps {
			es := parseSx(a)
			if len(es) == 1 && !es[0].isAtom() && len(es[0].kids) == 3 && es[0].kids[0].atom == "=" && es[0].kids[1].isAtom() && !es[0].kids[2].isAtom() &&
				len(es[0].kids[2].kids) == 4 && es[0].kids[2].kids[0].atom == "store" {
				defs[es[0].kids[1].atom] = es[0].kids[2]
			}
		}
		if len(defs) > 0 && extended {
			distinctNew := func(a, b *sx) bool {
				return a.isAtom() && b.isAtom() && a.atom != b.atom && strings.HasPrefix(a.atom, "new_") && strings.HasPrefix(b.atom, "new_")
			}
			var simp func(t *sx) *sx
			simp = func(t *sx) *sx {
				if t.isAtom() {
					return t
				}
				n := &sx{kids: make([]*sx, len(t.kids))}
				for i, k := range t.kids {
					n.kids[i] = simp(k)
				}
				if len(n.kids) == 3 && n.kids[0].isAtom() && n.kids[0].atom == "select" {
					arr, idx := n.kids[1], n.kids[2]
					for steps := 0; steps < 40; steps++ {
						if arr.isAtom() {
							d, ok := defs[arr.atom]
							if !ok {
								break
							}
							arr = d
						}
						if !arr.isAtom() && len(arr.kids) == 4 && arr.kids[0].atom == "store" {
							j := arr.kids[2]
							if j.String() == idx.String() {
								return simp(arr.kids[3])
							}
							if distinctNew(idx, j) {
								arr = arr.kids[1]
								continue
							}
						}
						break
					}
				}
				return n
			}
			var na []string
			for _, a := range assumps {
				es := parseSx(a)
				if len(es) != 1 {
					na = append(na, a)
					continue
				}
				// keep the defining equalities themselves as they are
				if !es[0].isAtom() && len(es[0].kids) == 3 && es[0].kids[0].atom == "=" && es[0].kids[1].isAtom() {
					if _, isDef := defs[es[0].kids[1].atom]; isDef {
						na = append(na, a)
						continue
					}
				}
				na = append(na, simp(es[0]).String())
			}
			assumps = na
			if gs := parseSx(goal); len(gs) == 1 {
				goal = simp(gs[0]).String()
			}
		}
	}
	var quants []*quantAssump
	ground := map[string]*sx{}
	var plainTexts []string
	for _, a := range assumps {
		es := parseSx(a)
		if len(es) != 1 {
			plainTexts = append(plainTexts, a)
			continue
		}
		top := es[0]
		if !top.isAtom() && len(top.kids) == 3 && top.kids[0].isAtom() && top.kids[0].atom == "forall" {
			if q := mkQuantAssump(top, a, extended); q != nil {
				quants = append(quants, q)
			} else {
				plainTexts = append(plainTexts, a) // keep quantified
			}
			continue
		}
		// not a top-level quantifier: the assertion is kept as it is (with any nested quantifiers), and universally
		// quantified parts nested in conjunctions / consequents are additionally offered for instantiation
		plainTexts = append(plainTexts, a)
		collectGround(top, map[string]bool{}, ground)
		if hasQuant(top) && extended {
			for _, e := range hoistForalls(top) {
				if !e.isAtom() && len(e.kids) == 3 && e.kids[0].isAtom() && e.kids[0].atom == "forall" {
					if q := mkQuantAssump(e, e.String(), extended); q != nil {
						q.extra = true
						quants = append(quants, q)
					}
				}
			}
		}
	}
	for _, g := range parseSx(goal) {
		collectGround(g, map[string]bool{}, ground)
	}
	done := map[string]bool{}
	var insts []string
	for r := 0; r < rounds; r++ {
		var newTerms []*sx
		newQuants := 0
		// deterministic order
		var keys []string
		for k := range ground {
			keys = append(keys, k)
		}
		sort.Strings(keys)
		for qi, q := range quants {
			if q.multi != nil {
				// matches per variable
				per := map[string][]*sx{}
				for _, vn := range q.varOrder {
					seenV := map[string]bool{}
					for _, k := range keys {
						bind := map[string]*sx{}
						if sxMatch(q.multi[vn], ground[k], map[string]bool{vn: true}, bind) && bind[vn] != nil {
							if !seenV[bind[vn].String()] && len(per[vn]) < 6 {
								seenV[bind[vn].String()] = true
								per[vn] = append(per[vn], bind[vn])
							}
						}
					}
				}
				var rec func(i int, bind map[string]*sx)
				rec = func(i int, bind map[string]*sx) {
					if len(insts) >= maxInst {
						return
					}
					if i == len(q.varOrder) {
						var sig strings.Builder
						sig.WriteString("M" + strconvItoa(qi))
						for _, v := range q.varOrder {
							sig.WriteString("|" + bind[v].String())
						}
						if done[sig.String()] {
							return
						}
						done[sig.String()] = true
						b2 := map[string]*sx{}
						for k, v := range bind {
							b2[k] = v
						}
						inst := sxSubst(q.body, b2)
						insts = append(insts, inst.String())
						newTerms = append(newTerms, inst)
						return
					}
					for _, t := range per[q.varOrder[i]] {
						bind[q.varOrder[i]] = t
						rec(i+1, bind)
					}
				}
				rec(0, map[string]*sx{})
				continue
			}
			for _, p := range q.patterns {
				for _, k := range keys {
					t := ground[k]
					bind := map[string]*sx{}
					if !sxMatch(p, t, q.vars, bind) || len(bind) != len(q.vars) {
						continue
					}
					var sig strings.Builder
					sig.WriteString(string(rune('A' + qi%26)))
					sig.WriteString(strconvItoa(qi))
					for _, v := range q.varOrder {
						sig.WriteString("|" + bind[v].String())
					}
					if done[sig.String()] {
						continue
					}
					done[sig.String()] = true
					inst := sxSubst(q.body, bind)
					// universally quantified parts of the instance (nested in conjunctions / consequents) are hoisted to
					// the top and take part in the following rounds
					parts := []*sx{inst}
					if extended {
						parts = hoistForalls(inst)
					}
					for _, part := range parts {
						if extended && !part.isAtom() && len(part.kids) == 3 && part.kids[0].isAtom() && part.kids[0].atom == "forall" {
							if nq := mkQuantAssump(part, part.String(), extended); nq != nil && len(quants) < 400 {
								quants = append(quants, nq)
								newQuants++
								continue
							}
						}
						insts = append(insts, part.String())
						newTerms = append(newTerms, part)
					}
					if len(insts) >= maxInst {
						goto finished
					}
				}
			}
		}
		if len(newTerms) == 0 && newQuants == 0 {
			break
		}
		for _, t := range newTerms {
			collectGround(t, map[string]bool{}, ground)
		}
	}
finished:
	out = append(out, plainTexts...)
	out = append(out, insts...)
	return out, len(quants), len(insts), goal
}

func mkQuantAssump(e *sx, orig string, multiPatterns bool) *quantAssump {
	q := &quantAssump{vars: map[string]bool{}, body: e.kids[2], orig: orig}
	for _, v := range e.kids[1].kids {
		if len(v.kids) > 0 {
			q.vars[v.kids[0].atom] = true
			q.varOrder = append(q.varOrder, v.kids[0].atom)
		}
	}
	var cands []*sx
	candidatePatterns(q.body, q.vars, &cands)
	// keep distinct patterns, smallest first, at most 4
	seen := map[string]bool{}
	sort.SliceStable(cands, func(i, j int) bool { return sxSize(cands[i]) < sxSize(cands[j]) })
	for _, c := range cands {
		s := c.String()
		if seen[s] || len(q.patterns) >= 4 {
			continue
		}
		seen[s] = true
		q.patterns = append(q.patterns, c)
	}
	if len(q.patterns) == 0 {
		// no single term mentions all variables: one pattern per variable, instantiated over the cross product of matches
		if len(q.varOrder) >= 2 && len(q.varOrder) <= 3 && multiPatterns {
			multi := map[string]*sx{}
			for _, vn := range q.varOrder {
				one := map[string]bool{vn: true}
				var cs []*sx
				candidatePatterns(q.body, one, &cs)
				var best *sx
				for _, c := range cs {
					// the pattern must not mention the other quantified variables
					other := map[string]bool{}
					varsIn(c, q.vars, other)
					if len(other) != 1 {
						continue
					}
					if best == nil || sxSize(c) < sxSize(best) {
						best = c
					}
				}
				if best == nil {
					return nil
				}
				multi[vn] = best
			}
			q.multi = multi
			return q
		}
		return nil
	}
	return q
}

// hoistForalls splits a formula into top-level parts, moving universal quantifiers that sit in conjuncts or in the
// consequent of an implication to the top: (=> G (and A (forall V B))) becomes (=> G A) and (forall V (=> G B)).
func hoistForalls(e *sx) []*sx {
	if e.isAtom() || len(e.kids) == 0 || !e.kids[0].isAtom() {
		return []*sx{e}
	}
	switch e.kids[0].atom {
	case "and":
		var out []*sx
		for _, c := range e.kids[1:] {
			out = append(out, hoistForalls(c)...)
		}
		return out
	case "=>":
		if len(e.kids) == 3 && hasQuant(e.kids[2]) {
			var out []*sx
			g := e.kids[1]
			for _, p := range hoistForalls(e.kids[2]) {
				if !p.isAtom() && len(p.kids) == 3 && p.kids[0].isAtom() && p.kids[0].atom == "forall" {
					out = append(out, &sx{kids: []*sx{p.kids[0], p.kids[1], {kids: []*sx{{atom: "=>"}, g, p.kids[2]}}}})
				} else {
					out = append(out, &sx{kids: []*sx{{atom: "=>"}, g, p}})
				}
			}
			return out
		}
	}
	return []*sx{e}
}

func strconvItoa(i int) string {
	if i == 0 {
		return "0"
	}
	var b []byte
	for i > 0 {
		b = append([]byte{byte('0' + i%10)}, b...)
		i /= 10
	}
	return string(b)
}

// splitConjuncts: (forall x (=> P (and a b))) -> [(forall x (=> P a)), (forall x (=> P b))]; (and a b) -> [a, b]
func splitConjuncts(goal string) []string {
	es := parseSx(goal)
	if len(es) != 1 {
		return []string{goal}
	}
	var rec func(e *sx) []*sx
	rec = func(e *sx) []*sx {
		if e.isAtom() || len(e.kids) == 0 || !e.kids[0].isAtom() {
			return []*sx{e}
		}
		switch e.kids[0].atom {
		case "and":
			var out []*sx
			for _, k := range e.kids[1:] {
				out = append(out, rec(k)...)
			}
			return out
		case "=>":
			if len(e.kids) == 3 {
				var out []*sx
				for _, c := range rec(e.kids[2]) {
					out = append(out, &sx{kids: []*sx{{atom: "=>"}, e.kids[1], c}})
				}
				return out
			}
		case "forall":
			if len(e.kids) == 3 {
				var out []*sx
				for _, c := range rec(e.kids[2]) {
					out = append(out, &sx{kids: []*sx{{atom: "forall"}, e.kids[1], c}})
				}
				return out
			}
		}
		return []*sx{e}
	}
	var out []string
	for _, c := range rec(es[0]) {
		out = append(out, c.String())
	}
	return out
}
