package main

// Thorough tier: everything the quick tier does (with a 60 s limit per obligation) plus
//   A. second-solver confirmation of every discharged obligation (a different solver must also answer unsat, or
//      at least not answer sat: a sat/unsat disagreement is an internal error of the machinery);
//   B. validation of the assumed axioms about library functions against Go's own implementation: every axiom whose
//      spec functions have a Go interpretation (concrete.go) is evaluated over a pool of concrete values;
//   C. the must-fail self-test: every hand-made mutant of this property is applied to a scratch worktree and must
//      raise a VIOLATION (sensitivity of the obligations; a miss is reported, it is not a violation of the tree);
//   D. the recorded findings of this property are replayed against the real code.
// B-D never turn a passing tree into a failing one except through INTERNAL-ERROR for a falsified axiom.

import (
	"context"
	"encoding/json"
	"time"
	"fmt"
	"os"
	"os/exec"
	"path/filepath"
	"sort"
	"strings"
	"sync"
)

type thoroughReport struct {
	SecondSolverConfirmed int
	SecondSolverUndecided int
	Disagreements         []string
	AxiomsValidated       int
	AxiomEvaluations      int
	AxiomsNotEvaluable    []string
	AxiomsFalsified       []string
	MutantsRun            int
	MutantsCaught         int
	MutantsMissed         []string
	FindingsReplayed      map[string]string
}

func (v *Verifier) secondSolver(obls []*Obligation, rep *thoroughReport) {
	sem := make(chan struct{}, 12)
	var wg sync.WaitGroup
	var mu sync.Mutex
	for _, o := range obls {
		if o.Canary || o.Preset || o.Result != "unsat" || o.File == "" {
			continue
		}
		first := o.Solver
		var other solverSpec
		switch {
		case strings.HasPrefix(first, "cvc5"):
			other = solvers[0]
		case strings.HasPrefix(first, "z3-new"), strings.HasPrefix(first, "portfolio"):
			other = solvers[1]
		default:
			other = solvers[0]
		}
		file := o.File
		// the query that was actually decided (ground-instantiated variant when that is what succeeded)
		if strings.Contains(first, "ground") {
			g := strings.TrimSuffix(file, ".smt2") + ".ground.smt2"
			if _, err := os.Stat(g); err == nil {
				file = g
			}
		}
		if _, err := os.Stat(file); err != nil {
			continue
		}
		wg.Add(1)
		go func(o *Obligation, file string, other solverSpec) {
			defer wg.Done()
			sem <- struct{}{}
			r := runSolver(context.Background(), other, file, 20)
			<-sem
			mu.Lock()
			defer mu.Unlock()
			switch r.Result {
			case "unsat":
				rep.SecondSolverConfirmed++
			case "sat":
				rep.Disagreements = append(rep.Disagreements, fmt.Sprintf("%s: %s says unsat, %s says sat", o.Name, o.Solver, other.Name))
			default:
				rep.SecondSolverUndecided++
			}
		}(o, file, other)
	}
	wg.Wait()
	sort.Strings(rep.Disagreements)
}

var axiomStringPool = []string{"", "a", "/", "a/b", "/abs/x.txt", "../x", "../../d/e.txt", "x.txt", "dir/file.tar.gz", "s/a/b/", "s/x//", "%.txt", "%", "basename", "dirname",
	"a\nb", "{i:x}", "{o:out|%.txt}", "join:,", "x|join: ", "__parent__x", "A_b-c.d", "ä", "a b"}

// validateAxioms evaluates the (non-lemma) axioms concretely. Returns falsified axioms.
func (v *Verifier) validateAxioms(prop string, used map[string]bool, rep *thoroughReport) {
	for _, ax := range v.cs.Axioms {
		if ax.Lemma || !used[ax.Name] {
			continue
		}
		q, ok := ax.E.(*EQuant)
		vars := []Binder{}
		body := ax.E
		if ok && q.Forall {
			vars = q.Vars
			body = q.Body
		}
		pools := make([][]interface{}, len(vars))
		evaluable := true
		lits := stringLitsOfExpr(ax.E)
		for i, b := range vars {
			switch b.Type {
			case "string":
				for _, s := range axiomStringPool {
					pools[i] = append(pools[i], s)
				}
				for _, s := range lits {
					pools[i] = append(pools[i], s, "x"+s, s+"y")
				}
			case "int":
				for k := int64(-1); k <= 4; k++ {
					pools[i] = append(pools[i], k)
				}
			case "seq[string]":
				pools[i] = []interface{}{cseq{}, cseq{"a"}, cseq{"basename"}, cseq{"%.txt", "dirname"}, cseq{"s/a/b/", "basename"}, cseq{"x", "y", "z"}}
			default:
				evaluable = false
			}
		}
		if !evaluable {
			rep.AxiomsNotEvaluable = append(rep.AxiomsNotEvaluable, ax.Name+" (quantifies over "+fmt.Sprint(vars)+")")
			continue
		}
		// cap the product
		total := 1
		for _, p := range pools {
			total *= len(p)
		}
		for total > 40000 {
			for i := range pools {
				if len(pools[i]) > 6 {
					pools[i] = pools[i][:len(pools[i])*2/3]
				}
			}
			total = 1
			for _, p := range pools {
				total *= len(p)
			}
		}
		env := &cenv{v: v, vars: map[string]interface{}{}}
		for _, p := range v.allTypesPkgs {
			if p.Path() == ax.PkgPath {
				env.pkg = p
			}
		}
		evals, unknowns := 0, 0
		falsified := ""
		var rec func(i int)
		rec = func(i int) {
			if falsified != "" {
				return
			}
			if i == len(vars) {
				switch env.evalTri(body) {
				case triF:
					var parts []string
					for _, b := range vars {
						parts = append(parts, fmt.Sprintf("%s=%q", b.Name, fmt.Sprint(env.vars[b.Name])))
					}
					falsified = strings.Join(parts, ", ")
				case triU:
					unknowns++
				}
				evals++
				return
			}
			for _, val := range pools[i] {
				env.vars[vars[i].Name] = val
				rec(i + 1)
				if falsified != "" {
					return
				}
			}
		}
		rec(0)
		rep.AxiomEvaluations += evals
		switch {
		case falsified != "":
			rep.AxiomsFalsified = append(rep.AxiomsFalsified, ax.Name+" is false for "+falsified)
		case unknowns == evals:
			rep.AxiomsNotEvaluable = append(rep.AxiomsNotEvaluable, ax.Name+" ("+env.why+")")
		default:
			rep.AxiomsValidated++
		}
	}
	sort.Strings(rep.AxiomsNotEvaluable)
}

func stringLitsOfExpr(e Expr) []string {
	var out []string
	var walk func(e Expr)
	walk = func(e Expr) {
		switch x := e.(type) {
		case *EStr:
			out = append(out, x.V)
		case *EUnary:
			walk(x.X)
		case *EBinary:
			walk(x.X)
			walk(x.Y)
		case *ESel:
			walk(x.X)
		case *EIndex:
			walk(x.X)
			walk(x.I)
		case *ESlice:
			walk(x.X)
		case *ECall:
			for _, a := range x.Args {
				// regexp pattern arguments are not values of the subject domain
				if (x.Fn == "matches" || x.Fn == "fullMatch") && a == x.Args[len(x.Args)-1] {
					continue
				}
				walk(a)
			}
		case *EQuant:
			walk(x.Body)
		}
	}
	walk(e)
	return dedup(out)
}

// selfTest runs the must-fail mutants of prop on a scratch worktree.
func selfTest(prop, root, repo string, rep *thoroughReport) {
	files, _ := filepath.Glob(filepath.Join(root, "mutants", "*.patch"))
	sort.Strings(files)
	var mine []string
	for _, f := range files {
		b, err := os.ReadFile(f)
		if err != nil {
			continue
		}
		for _, ln := range strings.SplitN(string(b), "\n", 4) {
			if strings.HasPrefix(ln, "# prop:") {
				for _, p := range strings.Fields(strings.TrimPrefix(ln, "# prop:")) {
					if p == prop {
						mine = append(mine, f)
					}
				}
			}
		}
	}
	if len(mine) == 0 {
		return
	}
	wt, err := os.MkdirTemp("", "govc_selftest_")
	if err != nil {
		return
	}
	os.Remove(wt)
	env := append(os.Environ(), "GOFLAGS=-mod=mod", "GOPROXY=off", "GOSUMDB=off", "GOTOOLCHAIN=local")
	run := func(dir string, name string, args ...string) ([]byte, error) {
		c := exec.Command(name, args...)
		c.Dir = dir
		c.Env = env
		return c.CombinedOutput()
	}
	// the mutants are applied to a copy of the tree under check (working tree state included)
	if _, err := run(repo, "git", "worktree", "add", "--detach", "-f", wt, "HEAD", "-q"); err != nil {
		return
	}
	defer func() {
		run(repo, "git", "worktree", "remove", "--force", wt)
		run(repo, "git", "worktree", "prune")
		os.RemoveAll(wt)
	}()
	if diff, err := run(repo, "git", "diff", "HEAD"); err == nil && len(diff) > 0 {
		// carry uncommitted changes of the tree under check over to the scratch copy
		tmp := wt + ".wip.diff"
		os.WriteFile(tmp, diff, 0o644)
		run(wt, "git", "apply", tmp)
		os.Remove(tmp)
		run(wt, "git", "add", "-A")
	}
	exe, _ := os.Executable()
	for _, f := range mine {
		name := strings.TrimSuffix(filepath.Base(f), ".patch")
		b, _ := os.ReadFile(f)
		var body []string
		for _, ln := range strings.Split(string(b), "\n") {
			if !strings.HasPrefix(ln, "# ") {
				body = append(body, ln)
			}
		}
		tmp := wt + ".mut.diff"
		os.WriteFile(tmp, []byte(strings.Join(body, "\n")), 0o644)
		if _, err := run(wt, "git", "apply", tmp); err != nil {
			os.Remove(tmp)
			continue // does not apply to this tree (the tree under check differs from the one the mutant was made for)
		}
		os.Remove(tmp)
		if _, err := run(wt, "go", "build", "./..."); err == nil {
			out, _ := run(root, exe, "check", prop, "--repo", wt, "--noevidence", "--timeout", "8", "--tier", "quick")
			rep.MutantsRun++
			if strings.Contains(string(out), "\nVIOLATION property="+prop) || strings.HasPrefix(string(out), "VIOLATION property="+prop) {
				rep.MutantsCaught++
			} else {
				rep.MutantsMissed = append(rep.MutantsMissed, name)
			}
		}
		run(wt, "git", "checkout", "--", ".")
		run(wt, "git", "reset", "-q", "--hard")
		if diff, err := run(repo, "git", "diff", "HEAD"); err == nil && len(diff) > 0 {
			tmp := wt + ".wip.diff"
			os.WriteFile(tmp, diff, 0o644)
			run(wt, "git", "apply", tmp)
			os.Remove(tmp)
		}
	}
}

// replayFindings re-runs the recorded witnesses of the open findings of prop against the real code.
func replayFindings(prop, root string, known []KnownFinding, rep *thoroughReport) {
	rep.FindingsReplayed = map[string]string{}
	for _, k := range known {
		if k.Property != prop || (k.Status != "open" && k.Status != "fixed") {
			continue
		}
		script := filepath.Join(root, "scripts", "run_finding.sh")
		c := exec.Command(script, k.ID)
		out, err := c.CombinedOutput()
		if k.Status == "fixed" {
			// the witness of a repaired defect must not reproduce (its obligation is checked like any other)
			switch {
			case strings.Contains(string(out), "VIOLATION-CONFIRMED"):
				rep.FindingsReplayed[k.ID] = "REGRESSION: the witness of this repaired defect reproduces again"
			case err == nil:
				rep.FindingsReplayed[k.ID] = "repaired: the witness no longer reproduces"
			default:
				rep.FindingsReplayed[k.ID] = "replay did not run: " + firstLines(string(out), 2)
			}
			continue
		}
		switch {
		case strings.Contains(string(out), "VIOLATION-CONFIRMED"):
			rep.FindingsReplayed[k.ID] = "reproduces on the real code"
		case err == nil:
			rep.FindingsReplayed[k.ID] = "does NOT reproduce any more (the obligation may still fail: update known_findings.json)"
		default:
			rep.FindingsReplayed[k.ID] = "replay did not run: " + firstLines(string(out), 2)
		}
	}
}

// ---- bounded stand-ins ----

type boundedResult struct {
	Name   string
	Bound  string
	OK     bool
	Cases  string
	Output string
}

// runBounded runs the bounded stand-ins of the functions taking part in prop: each is a Go test under /verif/bounded that
// exercises the REAL function exhaustively over a stated finite domain (injected with go test -overlay).
func (v *Verifier) runBounded(prop, root string) []boundedResult {
	var out []boundedResult
	for _, c := range v.cs.Order {
		for _, b := range c.BoundedChecks {
			has := false
			ps := b.Props
			if len(ps) == 0 {
				ps = c.Props
			}
			for _, p := range ps {
				if p == prop {
					has = true
				}
			}
			if !has {
				continue
			}
			res := boundedResult{Name: c.Key + ".bounded." + b.Label, Bound: b.Bound}
			var pkgDir string
			for _, p := range v.pkgs {
				if p.PkgPath == c.Pkg && len(p.GoFiles) > 0 {
					pkgDir = filepath.Dir(p.GoFiles[0])
				}
			}
			src := filepath.Join(root, "bounded", b.File)
			if pkgDir == "" {
				res.Output = "package directory not found"
				out = append(out, res)
				continue
			}
			if _, err := os.Stat(src); err != nil {
				res.Output = "harness file missing: " + src
				out = append(out, res)
				continue
			}
			work, err := os.MkdirTemp("", "govc_bounded_")
			if err != nil {
				res.Output = err.Error()
				out = append(out, res)
				continue
			}
			repl := map[string]string{filepath.Join(pkgDir, "zz_govc_bounded_test.go"): src}
			// harness files of the same package may share helpers: all of them are injected
			if others, _ := filepath.Glob(filepath.Join(root, "bounded", "*_test.go")); len(others) > 0 {
				for i, o := range others {
					if o == src {
						continue
					}
					if hb, err := os.ReadFile(o); err == nil && strings.Contains(string(hb), "\npackage "+filepath.Base(pkgDir)+"\n") || packageClauseIs(o, v, c.Pkg) {
						repl[filepath.Join(pkgDir, fmt.Sprintf("zz_govc_bounded%d_test.go", i))] = o
					}
				}
			}
			ob, _ := json.Marshal(map[string]interface{}{"Replace": repl})
			ov := filepath.Join(work, "overlay.json")
			os.WriteFile(ov, ob, 0o644)
			ctx, cancel := context.WithTimeout(context.Background(), 300*time.Second)
			cmd := exec.CommandContext(ctx, "go", "test", "-overlay", ov, "-vet=off", "-count=1", "-timeout", "240s", "-v", "-run", "^"+b.Test+"$", ".")
			cmd.Dir = pkgDir
			cmd.Env = append(os.Environ(), "GOFLAGS=-mod=mod", "GOPROXY=off", "GOSUMDB=off", "GOTOOLCHAIN=local")
			o, _ := cmd.CombinedOutput()
			cancel()
			os.RemoveAll(work)
			text := string(o)
			for _, ln := range strings.Split(text, "\n") {
				if strings.HasPrefix(strings.TrimSpace(ln), "BOUNDED-OK") {
					res.OK = true
					res.Cases = strings.TrimSpace(strings.TrimPrefix(strings.TrimSpace(ln), "BOUNDED-OK"))
				}
			}
			if strings.Contains(text, "BOUNDED-FAIL") || strings.Contains(text, "--- FAIL") || !strings.Contains(text, "\nok") {
				res.OK = false
			}
			if !res.OK {
				if len(text) > 3000 {
					text = text[:3000]
				}
				res.Output = text
			}
			out = append(out, res)
		}
	}
	return out
}

func packageClauseIs(file string, v *Verifier, pkgPath string) bool {
	b, err := os.ReadFile(file)
	if err != nil {
		return false
	}
	for _, p := range v.allTypesPkgs {
		if p.Path() == pkgPath {
			return strings.Contains(string(b), "\npackage "+p.Name()+"\n") || strings.HasPrefix(string(b), "package "+p.Name()+"\n")
		}
	}
	return false
}
