package main

import (
	"context"
	"fmt"
	"os"
	"path/filepath"
	"testing"
)

func TestSolversDirect(t *testing.T) {
	files, _ := filepath.Glob("/verif/.work/func/*confined-1*.smt2")
	if len(files) == 0 {
		t.Skip()
	}
	for _, sp := range solvers {
		r := runSolver(context.Background(), sp, files[0], 5)
		fmt.Fprintf(os.Stderr, "%s -> %s %.3f %q\n", sp.Name, r.Result, r.Time, firstLines(r.Output, 2))
	}
}
