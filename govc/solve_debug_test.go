package main

import (
	"fmt"
	"os"
	"path/filepath"
	"testing"
)

func TestPortfolioGround(t *testing.T) {
	files, _ := filepath.Glob("/verif/.work/func/*no-newline.ground.smt2")
	if len(files) == 0 {
		t.Skip()
	}
	sem := make(chan struct{}, 16)
	best, all, _ := portfolio(files[0], 10, sem, solvers)
	fmt.Fprintf(os.Stderr, "best=%v\n", best)
	for _, r := range all {
		fmt.Fprintf(os.Stderr, "%s -> %s %.2f %q\n", r.Solver, r.Result, r.Time, firstLines(r.Output, 2))
	}
}
