package main

import (
	"fmt"
	"go/token"
	"go/types"
	"strings"

	"golang.org/x/tools/go/ssa"
)

// execInstr executes one instruction; returns false if the path ended.
func (x *fnExec) execInstr(st *State, in ssa.Instruction) bool {
	v := x.v
	switch i := in.(type) {
	case *ssa.DebugRef:
		if len(st.inline) == 0 {
			x.debugRef(st, i)
		}
	case *ssa.Phi:
		// handled at block entry
	case *ssa.Jump, *ssa.If:
		// handled by execBlock
	case *ssa.Alloc:
		elem := i.Type().(*types.Pointer).Elem()
		r := x.newRef(st, "new_"+i.Name())
		if _, isStruct := elem.Underlying().(*types.Struct); isStruct && namedString(elem) != "time.Time" {
			if _, named := derefStruct(elem); named == nil {
				// anonymous struct: opaque object
				st.vals[i] = mkTerm(r, sInt, i.Type())
				break
			}
			x.zeroInitStruct(st, r, elem)
			st.vals[i] = mkTerm(r, sInt, i.Type())
		} else {
			l := x.cellLoc(r, elem)
			if l.Kind == "arr" {
				at := elem.Underlying().(*types.Array)
				es := v.decls.sortOf(at.Elem())
				cur := st.heapGet(v, l.Heap, l.HSort)
				st.heapSet(v, l.Heap, l.HSort, store(cur, r, "((as const "+arrSort(sInt, es)+") "+zeroOf(es)+")"))
			} else {
				cur := st.heapGet(v, l.Heap, l.HSort)
				st.heapSet(v, l.Heap, l.HSort, store(cur, r, zeroOf(l.Sort)))
			}
			st.locs[i] = l
			st.vals[i] = mkTerm(r, sInt, i.Type())
		}
	case *ssa.FieldAddr:
		base := x.val(st, i.X)
		s, named := derefStruct(i.X.Type())
		if s == nil || named == nil {
			fail("FieldAddr on unnamed struct %v", i.X.Type())
		}
		f := s.Field(i.Field)
		// a nil dereference panics (non-zero exit); execution continues only with a non-nil base
		if !strings.HasPrefix(base.S, "(emb_") {
			st.assume(not(eq(base.S, "0")))
		}
		if v.isEmbeddedStructField(f.Type()) {
			st.vals[i] = mkTerm("("+v.embFunc(named, f)+" "+base.S+")", sInt, i.Type())
		} else {
			fs := v.decls.sortOf(f.Type())
			hn := v.fieldHeapName(named, f)
			v.registerHeap(hn, arrSort(sInt, fs))
			st.locs[i] = Loc{Kind: "field", Heap: hn, HSort: arrSort(sInt, fs), Ref: base.S, Sort: fs, T: f.Type()}
		}
	case *ssa.Field:
		// field of a struct value: opaque
		s := v.decls.sortOf(i.Type())
		t := mkTerm(st.fresh(v, "fieldval", s), s, i.Type())
		st.vals[i] = t
		x.typeFacts(st, t, true)
		v.note("%s: field extraction from struct value is havocked", x.fnName())
	case *ssa.IndexAddr:
		idx := x.val(st, i.Index)
		if pt, ok := i.X.Type().Underlying().(*types.Pointer); ok {
			at := pt.Elem().Underlying().(*types.Array)
			base := x.val(st, i.X)
			l := x.cellLoc(base.S, pt.Elem())
			es := v.decls.sortOf(at.Elem())
			st.locs[i] = Loc{Kind: "arrelem", Heap: l.Heap, HSort: l.HSort, Ref: base.S, Idx: idx.S, Sort: es, T: at.Elem()}
		} else {
			sl := x.val(st, i.X)
			if !isSliceSort(sl.Sort) {
				fail("IndexAddr on sort %s", sl.Sort)
			}
			var et types.Type
			if stp, ok := i.X.Type().Underlying().(*types.Slice); ok {
				et = stp.Elem()
			}
			st.locs[i] = Loc{Kind: "sliceelem", Slice: sl, Idx: idx.S, Sort: sliceElem[sl.Sort], T: et}
			x.safety(st, in, "index", "(and (>= "+idx.S+" 0) (< "+idx.S+" "+sliceLen(sl)+"))")
			// an index out of range panics; execution continues only in range
			st.assume("(and (>= " + idx.S + " 0) (< " + idx.S + " " + sliceLen(sl) + "))")
		}
	case *ssa.Index:
		a := x.val(st, i.X)
		idx := x.val(st, i.Index)
		if a.Sort == sString {
			st.vals[i] = mkTerm("(str.to_code (str.at "+a.S+" "+idx.S+"))", sInt, i.Type())
		} else if isSliceSort(a.Sort) {
			st.vals[i] = mkTerm(sel(sliceElems(a), idx.S), sliceElem[a.Sort], i.Type())
		} else {
			fail("Index on sort %s", a.Sort)
		}
	case *ssa.UnOp:
		return x.execUnOp(st, i)
	case *ssa.BinOp:
		st.vals[i] = x.binop(st, i)
	case *ssa.Store:
		val := x.val(st, i.Val)
		l, ok := x.locOf(st, i.Addr)
		if !ok {
			if pt, isPtr := i.Addr.Type().Underlying().(*types.Pointer); isPtr {
				if _, isStruct := pt.Elem().Underlying().(*types.Struct); isStruct {
					// store of a whole struct value: havoc the fields of the target object
					for _, hn := range x.structFieldHeaps(pt.Elem()) {
						st.heapHavoc(v, hn, v.heapSorts[hn])
					}
					v.note("%s: store of a struct value havocs its field arrays", x.fnName())
					break
				}
			}
			fail("store through untracked address %s", i.Addr.Name())
		}
		x.writeLoc(st, l, val)
	case *ssa.Convert:
		xv := x.val(st, i.X)
		ts := v.decls.sortOf(i.Type())
		if xv.Sort == ts {
			xv.T = i.Type()
			st.vals[i] = xv
		} else if ts == sString && xv.Sort == sInt {
			st.vals[i] = mkTerm("(str.from_code "+xv.S+")", sString, i.Type())
		} else {
			t := mkTerm(st.fresh(v, "conv", ts), ts, i.Type())
			st.vals[i] = t
			v.note("%s: conversion %v -> %v is havocked", x.fnName(), i.X.Type(), i.Type())
		}
	case *ssa.ChangeType:
		xv := x.val(st, i.X)
		xv.T = i.Type()
		st.vals[i] = xv
	case *ssa.ChangeInterface:
		xv := x.val(st, i.X)
		xv.T = i.Type()
		st.vals[i] = xv
	case *ssa.MakeInterface:
		xv := x.val(st, i.X)
		if isRefType(i.X.Type()) {
			xv.T = i.Type()
			st.vals[i] = xv
		} else {
			fn := "box_" + mangleSort(xv.Sort)
			v.decls.add("fun:"+fn, "(declare-fun "+fn+" ("+xv.Sort+") Int)")
			st.vals[i] = mkTerm("("+fn+" "+xv.S+")", sInt, i.Type())
		}
	case *ssa.TypeAssert:
		xv := x.val(st, i.X)
		if i.CommaOk {
			ok := mkTerm(st.fresh(v, "taok", sBool), sBool, types.Typ[types.Bool])
			rv := xv
			rv.T = i.AssertedType
			st.tuples[i] = []Term{rv, ok}
		} else {
			xv.T = i.AssertedType
			st.vals[i] = xv
		}
		v.note("%s: type assertion treated as identity", x.fnName())
	case *ssa.Extract:
		tp, ok := st.tuples[i.Tuple]
		if !ok {
			fail("extract from unknown tuple %s", i.Tuple.Name())
		}
		if i.Index >= len(tp) {
			fail("extract index out of range")
		}
		t := tp[i.Index]
		if t.Sort == "" {
			// unused component (e.g. key of range with blank)
			break
		}
		st.vals[i] = t
	case *ssa.MakeMap:
		mt := i.Type().Underlying().(*types.Map)
		r := x.newRef(st, "map")
		x.mapInit(st, r, mt)
		st.vals[i] = mkTerm(r, sInt, i.Type())
	case *ssa.MakeChan:
		ct := i.Type().Underlying().(*types.Chan)
		r := x.newRef(st, "chan")
		x.chanHeapVars(ct.Elem())
		sz := x.val(st, i.Size)
		for _, nm := range []string{"CH_sentn", "CH_recvn", "CH_recva"} {
			cur := st.heapGet(v, nm, arrSort(sInt, sInt))
			st.heapSet(v, nm, arrSort(sInt, sInt), store(cur, r, "0"))
		}
		cur := st.heapGet(v, "CH_closed", arrSort(sInt, sBool))
		st.heapSet(v, "CH_closed", arrSort(sInt, sBool), store(cur, r, "false"))
		v.decls.add("fun:CH_cap", "(declare-fun CH_cap (Int) Int)")
		st.assume(eq("(CH_cap "+r+")", sz.S))
		st.vals[i] = mkTerm(r, sInt, i.Type())
		// (a channel made by a callee whose body is executed inline is handed out by that callee: it escapes)
		if i.Parent() == x.fn && !chanEscapes(x.fn, i.Type()) {
			st.localChans = append(st.localChans, r)
			x.v.note("%s: channel of type %s made here does not escape: a receive that reports 'closed' while neither this function nor its go-routines closed it would block forever (partial correctness)", x.fnName(), i.Type())
		}
		for _, mc := range x.c.AtMakeChan {
			c := x.ctx(st)
			c.vars["$ch"] = st.vals[i]
			st.assume(x.evalClause(st, c, mc))
			x.v.note("%s: definitional assumption for the fresh channel: %s", x.fnName(), mc.Src)
		}
	case *ssa.MakeSlice:
		ss := v.decls.sortOf(i.Type())
		ln := x.val(st, i.Len)
		if ss == sString {
			// []byte of given length: unknown content of that length
			t := mkTerm(st.fresh(v, "bytes", sString), sString, i.Type())
			st.assume(eq("(str.len "+t.S+")", ln.S))
			st.vals[i] = t
		} else {
			el := sliceElem[ss]
			st.vals[i] = mkTerm(mkSlice(ss, ln.S, "((as const "+arrSort(sInt, el)+") "+zeroOf(el)+")"), ss, i.Type())
		}
	case *ssa.MakeClosure:
		r := x.newRef(st, "closure")
		fn := i.Fn.(*ssa.Function)
		var bs []Term
		for _, b := range i.Bindings {
			bs = append(bs, x.val(st, b))
		}
		st.closures[r] = closureInfo{Fn: fn, Bindings: bs}
		st.vals[i] = mkTerm(r, sInt, i.Type())
	case *ssa.MapUpdate:
		m := x.val(st, i.Map)
		k := x.val(st, i.Key)
		val := x.val(st, i.Value)
		mt := i.Map.Type().Underlying().(*types.Map)
		x.safety(st, in, "nilmap", "(not (= "+m.S+" 0))")
		st.assume(not(eq(m.S, "0")))
		x.mapStore(st, m.S, mt, k.S, val.S)
	case *ssa.Lookup:
		xv := x.val(st, i.X)
		idx := x.val(st, i.Index)
		if mt, ok := i.X.Type().Underlying().(*types.Map); ok {
			c := x.ctx(st)
			dom, val, _, _, vs := c.mapArrays(mt)
			has := sel(sel(dom, xv.S), idx.S)
			rv := mkTerm("(ite "+has+" "+sel(sel(val, xv.S), idx.S)+" "+zeroOf(vs)+")", vs, mt.Elem())
			if i.CommaOk {
				st.tuples[i] = []Term{rv, mkTerm(has, sBool, types.Typ[types.Bool])}
			} else {
				// name the value to keep terms small
				nv := mkTerm(st.fresh(v, "lk", vs), vs, mt.Elem())
				st.assume(eq(nv.S, rv.S))
				st.vals[i] = nv
				x.typeFacts(st, nv, true)
			}
		} else {
			// string index: out of range panics (non-zero exit); execution continues only in range
			x.safety(st, in, "strindex", "(and (>= "+idx.S+" 0) (< "+idx.S+" (str.len "+xv.S+")))")
			st.assume("(and (>= " + idx.S + " 0) (< " + idx.S + " (str.len " + xv.S + ")))")
			st.vals[i] = mkTerm("(str.to_code (str.at "+xv.S+" "+idx.S+"))", sInt, i.Type())
		}
	case *ssa.Slice:
		x.execSlice(st, i)
	case *ssa.Range:
		xv := x.val(st, i.X)
		if mt, ok := i.X.Type().Underlying().(*types.Map); ok {
			ks := v.decls.sortOf(mt.Key())
			st.iters[i] = &iterState{Kind: "map", Map: xv, MapT: mt, Visited: "((as const " + arrSort(ks, sBool) + ") false)", KSort: ks}
		} else {
			fail("range over %v not supported", i.X.Type())
		}
	case *ssa.Next:
		x.execNext(st, i)
	case *ssa.Send:
		ch := x.val(st, i.Chan)
		val := x.val(st, i.X)
		for _, ac := range x.c.AtSend {
			x.clauseHit[ac] = true
			c := x.ctx(st)
			c.vars["$ch"] = ch
			g := x.evalClause(st, c, ac)
			x.emit(st, fmt.Sprintf("atsend.%s#%d", ac.Label, x.siteOrd[in]), "atsend", ac.Label, ac.Props, g, "before send: "+ac.Src)
		}
		x.chanInvSend(st, in, ch, val, i.Chan.Type())
		x.chanSend(st, in, ch, val, i.Chan.Type())
	case *ssa.Select:
		return x.execSelect(st, i)
	case *ssa.Call:
		res, alive := x.doCall(st, in, &i.Call, "call")
		if !alive {
			return false
		}
		x.bindResults(st, i, res)
		x.checkEffects(st, in)
	case *ssa.Go:
		_, alive := x.doCall(st, in, &i.Call, "go")
		if !alive {
			return false
		}
	case *ssa.Defer:
		st.defers = append(st.defers, i)
	case *ssa.RunDefers:
		for k := len(st.defers) - 1; k >= 0; k-- {
			d := st.defers[k]
			_, alive := x.doCall(st, d, &d.Call, "defer")
			if !alive {
				return false
			}
			x.checkEffects(st, d)
		}
		st.defers = nil
	case *ssa.Return:
		if n := len(st.inline); n > 0 {
			// return of an inlined call: bind the results at the call site and go on in the caller
			call := st.inline[n-1]
			st.inline = st.inline[: n-1 : n-1]
			var res []Term
			for _, r := range i.Results {
				res = append(res, x.val(st, r))
			}
			x.bindResults(st, call, res)
			x.checkEffects(st, call)
			x.continueAfter(st, call)
			return false
		}
		x.execReturn(st, i)
		return false
	case *ssa.Panic:
		// a panic terminates the program with a non-zero status; the path ends
		return false
	default:
		fail("unsupported instruction %T (%s) in %s", in, in.String(), x.fnName())
	}
	return true
}

func (x *fnExec) safety(st *State, in ssa.Instruction, kind, cond string) {
	if !x.v.safetyChecks {
		return
	}
	o := x.emit(st, fmt.Sprintf("safety.%s.b%d", kind, in.Block().Index), "safety", kind, nil, cond, kind)
	_ = o
}

func (x *fnExec) mapInit(st *State, r string, mt *types.Map) {
	v := x.v
	ks := v.decls.sortOf(mt.Key())
	names := x.mapHeapVars(mt)
	ds := arrSort(sInt, arrSort(ks, sBool))
	cur := st.heapGet(v, names[0], ds)
	st.heapSet(v, names[0], ds, store(cur, r, "((as const "+arrSort(ks, sBool)+") false)"))
	ls := arrSort(sInt, sInt)
	curl := st.heapGet(v, names[2], ls)
	st.heapSet(v, names[2], ls, store(curl, r, "0"))
}

func (x *fnExec) mapStore(st *State, m string, mt *types.Map, k, val string) {
	v := x.v
	ks := v.decls.sortOf(mt.Key())
	vs := v.decls.sortOf(mt.Elem())
	names := x.mapHeapVars(mt)
	ds, vsrt, ls := arrSort(sInt, arrSort(ks, sBool)), arrSort(sInt, arrSort(ks, vs)), arrSort(sInt, sInt)
	dom := st.heapGet(v, names[0], ds)
	vals := st.heapGet(v, names[1], vsrt)
	ln := st.heapGet(v, names[2], ls)
	st.heapSet(v, names[2], ls, store(ln, m, "(+ "+sel(ln, m)+" (ite "+sel(sel(dom, m), k)+" 0 1))"))
	st.heapSet(v, names[0], ds, store(dom, m, store(sel(dom, m), k, "true")))
	st.heapSet(v, names[1], vsrt, store(vals, m, store(sel(vals, m), k, val)))
}

func (x *fnExec) mapDelete(st *State, m string, mt *types.Map, k string) {
	v := x.v
	ks := v.decls.sortOf(mt.Key())
	names := x.mapHeapVars(mt)
	ds, ls := arrSort(sInt, arrSort(ks, sBool)), arrSort(sInt, sInt)
	dom := st.heapGet(v, names[0], ds)
	ln := st.heapGet(v, names[2], ls)
	st.heapSet(v, names[2], ls, store(ln, m, "(- "+sel(ln, m)+" (ite "+sel(sel(dom, m), k)+" 1 0))"))
	st.heapSet(v, names[0], ds, store(dom, m, store(sel(dom, m), k, "false")))
}

// mapLenFacts: len >= 0 and len == 0 <=> empty domain
func (x *fnExec) mapLenFacts(st *State, m string, mt *types.Map) string {
	v := x.v
	ks := v.decls.sortOf(mt.Key())
	names := x.mapHeapVars(mt)
	dom := st.heapGet(v, names[0], arrSort(sInt, arrSort(ks, sBool)))
	ln := sel(st.heapGet(v, names[2], arrSort(sInt, sInt)), m)
	st.assume("(>= " + ln + " 0)")
	st.assume("(= (= " + ln + " 0) (forall ((k!l " + ks + ")) (not " + sel(sel(dom, m), "k!l") + ")))")
	return ln
}

func (x *fnExec) execUnOp(st *State, i *ssa.UnOp) bool {
	v := x.v
	switch i.Op {
	case token.MUL:
		l, ok := x.locOf(st, i.X)
		if !ok {
			// load of a whole struct value or through an untracked pointer
			s := v.decls.sortOf(i.Type())
			t := mkTerm(st.fresh(v, "load", s), s, i.Type())
			st.vals[i] = t
			x.typeFacts(st, t, true)
			v.note("%s: load of %v through untracked address is havocked", x.fnName(), i.Type())
			return true
		}
		t := x.readLoc(st, l)
		t.T = i.Type()
		if isRefType(i.Type()) || isSliceSort(t.Sort) {
			// name it and add type facts
			n := mkTerm(st.fresh(v, "ld", t.Sort), t.Sort, i.Type())
			n.KnownLen = t.KnownLen
			st.assume(eq(n.S, t.S))
			x.typeFacts(st, n, true)
			t = n
		}
		st.vals[i] = t
	case token.NOT:
		xv := x.val(st, i.X)
		st.vals[i] = mkTerm(not(xv.S), sBool, i.Type())
	case token.SUB:
		xv := x.val(st, i.X)
		st.vals[i] = mkTerm("(- "+xv.S+")", xv.Sort, i.Type())
	case token.ARROW:
		ch := x.val(st, i.X)
		val, ok := x.chanRecv(st, ch, i.X.Type())
		if i.CommaOk {
			st.tuples[i] = []Term{val, ok}
		} else {
			st.vals[i] = val
		}
	default:
		s := v.decls.sortOf(i.Type())
		st.vals[i] = mkTerm(st.fresh(v, "unop", s), s, i.Type())
		v.note("%s: unary operator %s is havocked", x.fnName(), i.Op)
	}
	return true
}

func (x *fnExec) binop(st *State, i *ssa.BinOp) Term {
	v := x.v
	a := x.val(st, i.X)
	b := x.val(st, i.Y)
	rs := v.decls.sortOf(i.Type())
	mk := func(s string) Term { return mkTerm(s, rs, i.Type()) }
	switch i.Op {
	case token.ADD:
		if a.Sort == sString {
			return mk("(str.++ " + a.S + " " + b.S + ")")
		}
		return mk("(+ " + a.S + " " + b.S + ")")
	case token.SUB:
		return mk("(- " + a.S + " " + b.S + ")")
	case token.MUL:
		return mk("(* " + a.S + " " + b.S + ")")
	case token.QUO:
		if a.Sort == sInt {
			// Go truncates toward zero; operands here are non-negative lengths/counters in all functions under contract
			return mk("(div " + a.S + " " + b.S + ")")
		}
	case token.REM:
		if a.Sort == sInt {
			return mk("(mod " + a.S + " " + b.S + ")")
		}
	case token.EQL, token.NEQ:
		if a.Sort != b.Sort {
			fail("comparison of different sorts %s %s", a.Sort, b.Sort)
		}
		var e string
		// byte-from-string compared with a constant: use str.at for solver friendliness
		e = eq(a.S, b.S)
		if strings.HasPrefix(a.S, "(str.to_code (str.at ") && isIntLit(b.S) {
			inner := strings.TrimSuffix(strings.TrimPrefix(a.S, "(str.to_code "), ")")
			e = eq(inner, "(str.from_code "+b.S+")")
		}
		if i.Op == token.NEQ {
			e = not(e)
		}
		return mk(e)
	case token.LSS, token.LEQ, token.GTR, token.GEQ:
		op := map[token.Token]string{token.LSS: "<", token.LEQ: "<=", token.GTR: ">", token.GEQ: ">="}[i.Op]
		if a.Sort == sString {
			switch i.Op {
			case token.LSS:
				return mk("(str.< " + a.S + " " + b.S + ")")
			case token.LEQ:
				return mk("(str.<= " + a.S + " " + b.S + ")")
			case token.GTR:
				return mk("(str.< " + b.S + " " + a.S + ")")
			case token.GEQ:
				return mk("(str.<= " + b.S + " " + a.S + ")")
			}
		}
		return mk("(" + op + " " + a.S + " " + b.S + ")")
	case token.LAND, token.AND:
		if a.Sort == sBool {
			return mk(and(a.S, b.S))
		}
	case token.LOR, token.OR:
		if a.Sort == sBool {
			return mk(or(a.S, b.S))
		}
	}
	t := mk(st.fresh(v, "binop", rs))
	v.note("%s: binary operator %s on %s is havocked", x.fnName(), i.Op, a.Sort)
	return t
}

func isIntLit(s string) bool {
	if s == "" {
		return false
	}
	for _, c := range s {
		if c < '0' || c > '9' {
			return false
		}
	}
	return true
}

func (x *fnExec) execSlice(st *State, i *ssa.Slice) {
	v := x.v
	// pointer to array
	if pt, ok := i.X.Type().Underlying().(*types.Pointer); ok {
		at, isArr := pt.Elem().Underlying().(*types.Array)
		if !isArr {
			fail("slice of pointer to non-array")
		}
		base := x.val(st, i.X)
		es := v.decls.sortOf(at.Elem())
		if isByteElem(at.Elem()) {
			// [N]byte lives in a String cell
			l := x.cellLoc(base.S, pt.Elem())
			whole := x.readLoc(st, l)
			lo := "0"
			if i.Low != nil {
				lo = x.val(st, i.Low).S
			}
			hi := "(str.len " + whole.S + ")"
			if i.High != nil {
				hi = x.val(st, i.High).S
			}
			if i.Low == nil && i.High == nil {
				st.vals[i] = mkTerm(whole.S, sString, i.Type())
			} else {
				st.vals[i] = mkTerm("(str.substr "+whole.S+" "+lo+" (- "+hi+" "+lo+"))", sString, i.Type())
			}
			_ = es
			return
		}
		l := x.cellLoc(base.S, pt.Elem())
		whole := x.readLoc(st, l)
		if i.Low == nil && i.High == nil {
			whole.T = i.Type()
			st.vals[i] = whole
			return
		}
		st.vals[i] = x.sliceOf(st, whole, i)
		return
	}
	xv := x.val(st, i.X)
	if xv.Sort == sString {
		lo := "0"
		if i.Low != nil {
			lo = x.val(st, i.Low).S
		}
		hi := "(str.len " + xv.S + ")"
		if i.High != nil {
			hi = x.val(st, i.High).S
		}
		x.safety(st, i, "strslice", "(and (<= 0 "+lo+") (<= "+lo+" "+hi+") (<= "+hi+" (str.len "+xv.S+")))")
		st.vals[i] = mkTerm("(str.substr "+xv.S+" "+lo+" (- "+hi+" "+lo+"))", sString, i.Type())
		return
	}
	if !isSliceSort(xv.Sort) {
		fail("slice of sort %s", xv.Sort)
	}
	st.vals[i] = x.sliceOf(st, xv, i)
}

func isByteElem(t types.Type) bool {
	b, ok := t.Underlying().(*types.Basic)
	return ok && b.Kind() == types.Uint8
}

func (x *fnExec) sliceOf(st *State, s Term, i *ssa.Slice) Term {
	v := x.v
	lo := "0"
	if i.Low != nil {
		lo = x.val(st, i.Low).S
	}
	hi := sliceLen(s)
	if i.High != nil {
		hi = x.val(st, i.High).S
	}
	x.safety(st, i, "slice", "(and (<= 0 "+lo+") (<= "+lo+" "+hi+") (<= "+hi+" "+sliceLen(s)+"))")
	el := sliceElem[s.Sort]
	if lo == "0" {
		return mkTerm(mkSlice(s.Sort, hi, sliceElems(s)), s.Sort, i.Type())
	}
	arr := st.fresh(v, "shifted", arrSort(sInt, el))
	st.assume("(forall ((j!s Int)) (= " + sel(arr, "j!s") + " " + sel(sliceElems(s), "(+ j!s "+lo+")") + "))")
	return mkTerm(mkSlice(s.Sort, "(- "+hi+" "+lo+")", arr), s.Sort, i.Type())
}

func (x *fnExec) execNext(st *State, i *ssa.Next) {
	v := x.v
	it, ok := st.iters[i.Iter]
	if !ok {
		fail("next on unknown iterator")
	}
	if it.Kind != "map" {
		fail("next on %s iterator", it.Kind)
	}
	c := x.ctx(st)
	dom, val, _, ks, vs := c.mapArrays(it.MapT)
	okv := st.fresh(v, "ok", sBool)
	k := st.fresh(v, "k", ks)
	d := sel(dom, it.Map.S)
	st.assume("(=> " + okv + " (and " + sel(d, k) + " (not " + sel(it.Visited, k) + ")))")
	st.assume("(=> (not " + okv + ") (forall ((k!n " + ks + ")) (=> " + sel(d, "k!n") + " " + sel(it.Visited, "k!n") + ")))")
	valT := mkTerm(st.fresh(v, "v", vs), vs, it.MapT.Elem())
	st.assume(eq(valT.S, sel(sel(val, it.Map.S), k)))
	x.typeFacts(st, valT, true)
	nv := st.fresh(v, "visited", arrSort(ks, sBool))
	st.assume(eq(nv, "(ite "+okv+" "+store(it.Visited, k, "true")+" "+it.Visited+")"))
	it.Visited = nv
	st.tuples[i] = []Term{mkTerm(okv, sBool, types.Typ[types.Bool]), mkTerm(k, ks, it.MapT.Key()), valT}
}

// ---- channels ----

func (x *fnExec) chanSend(st *State, in ssa.Instruction, ch, val Term, cht types.Type) {
	v := x.v
	ct := cht.Underlying().(*types.Chan)
	es := v.decls.sortOf(ct.Elem())
	names := x.chanHeapVars(ct.Elem())
	// a send on a nil channel blocks forever: execution continues only with a non-nil channel
	st.assume(not(eq(ch.S, "0")))
	sentn := st.heapGet(v, "CH_sentn", arrSort(sInt, sInt))
	closed := st.heapGet(v, "CH_closed", arrSort(sInt, sBool))
	x.safety(st, in, "send-on-closed", not(sel(closed, ch.S)))
	sn := names[3]
	ss := arrSort(sInt, arrSort(sInt, es))
	sent := st.heapGet(v, sn, ss)
	valS := val.S
	if val.Sort != es {
		valS = zeroOf(es)
	}
	st.heapSet(v, sn, ss, store(sent, ch.S, store(sel(sent, ch.S), sel(sentn, ch.S), valS)))
	st.heapSet(v, "CH_sentn", arrSort(sInt, sInt), store(sentn, ch.S, "(+ "+sel(sentn, ch.S)+" 1)"))
}

func (x *fnExec) chanRecv(st *State, ch Term, cht types.Type) (Term, Term) {
	v := x.v
	ct := cht.Underlying().(*types.Chan)
	es := v.decls.sortOf(ct.Elem())
	x.chanHeapVars(ct.Elem())
	v.decls.add("fun:CH_total", "(declare-fun CH_total (Int) Int)")
	fn := "CH_in_" + mangleSort(es)
	v.decls.add("fun:"+fn, "(declare-fun "+fn+" (Int Int) "+es+")")
	st.assume(not(eq(ch.S, "0")))
	recvn := st.heapGet(v, "CH_recvn", arrSort(sInt, sInt))
	rc := sel(recvn, ch.S)
	okS := st.fresh(v, "rok", sBool)
	// by definition of the prophecy sequence: 0 <= received so far <= total ever received
	st.assume("(and (<= 0 " + rc + ") (<= " + rc + " (CH_total " + ch.S + ")))")
	st.assume(eq(okS, "(< "+rc+" (CH_total "+ch.S+"))"))
	val := mkTerm(st.fresh(v, "rv", es), es, ct.Elem())
	st.assume(eq(val.S, "(ite "+okS+" ("+fn+" "+ch.S+" "+rc+") "+zeroOf(es)+")"))
	x.typeFacts(st, val, true)
	st.heapSet(v, "CH_recvn", arrSort(sInt, sInt), store(recvn, ch.S, "(ite "+okS+" (+ "+rc+" 1) "+rc+")"))
	reca := st.heapGet(v, "CH_recva", arrSort(sInt, sInt))
	st.heapSet(v, "CH_recva", arrSort(sInt, sInt), store(reca, ch.S, "(+ "+sel(reca, ch.S)+" 1)"))
	// a local, non-escaping channel is closed only by this function or the go-routines it starts (whose contracts say so):
	// a receive that does not deliver a value while the channel is open blocks forever
	if len(st.localChans) > 0 {
		closed := st.heapGet(v, "CH_closed", arrSort(sInt, sBool))
		for _, lc := range st.localChans {
			st.assume(implies(and(eq(ch.S, lc), not(okS)), sel(closed, lc)))
		}
	}
	// channel invariants of the element type hold for every value actually received (rely)
	for _, ci := range x.chanInvsFor(ct.Elem()) {
		c := x.ctx(st)
		c.pkg = x.v.pkgByPath(ci.PkgPath)
		c.vars["$v"] = val
		c.vars["$ch"] = ch
		t, err := x.evalIn(st, c, ci.E)
		if err != nil {
			fail("chaninv %s: %v", ci.Label, err)
		}
		st.assume(implies(okS, t.S))
	}
	return val, mkTerm(okS, sBool, types.Typ[types.Bool])
}

func (x *fnExec) execSelect(st *State, i *ssa.Select) bool {
	// demonic choice: one path per communication case (plus default if non-blocking)
	n := len(i.States)
	for k := 0; k < n; k++ {
		ns := st.fork()
		x.v.pathCounter++
		ns.pathID = x.v.pathCounter
		ns.trace = append(ns.trace, fmt.Sprintf("select:%d", k))
		s := i.States[k]
		ch := x.val(ns, s.Chan)
		// a nil channel is never ready
		ns.assume(not(eq(ch.S, "0")))
		tuple := []Term{mkTerm(fmt.Sprint(k), sInt, types.Typ[types.Int]), mkTerm("true", sBool, types.Typ[types.Bool])}
		// receive slots for all recv states in order
		for j := 0; j < n; j++ {
			sj := i.States[j]
			if sj.Dir != types.RecvOnly {
				continue
			}
			ct := sj.Chan.Type().Underlying().(*types.Chan)
			es := x.v.decls.sortOf(ct.Elem())
			if j == k {
				val, ok := x.chanRecv(ns, ch, sj.Chan.Type())
				tuple[1] = ok
				tuple = append(tuple, val)
			} else {
				tuple = append(tuple, mkTerm(zeroOf(es), es, ct.Elem()))
			}
		}
		if s.Dir == types.SendOnly {
			x.chanSend(ns, i, ch, x.val(ns, s.Send), s.Chan.Type())
		}
		ns.tuples[i] = tuple
		x.continueAfter(ns, i)
	}
	if !i.Blocking {
		ns := st.fork()
		x.v.pathCounter++
		ns.pathID = x.v.pathCounter
		tuple := []Term{mkTerm("(- 1)", sInt, types.Typ[types.Int]), mkTerm("false", sBool, types.Typ[types.Bool])}
		for j := 0; j < n; j++ {
			sj := i.States[j]
			if sj.Dir == types.RecvOnly {
				ct := sj.Chan.Type().Underlying().(*types.Chan)
				es := x.v.decls.sortOf(ct.Elem())
				tuple = append(tuple, mkTerm(zeroOf(es), es, ct.Elem()))
			}
		}
		ns.tuples[i] = tuple
		x.continueAfter(ns, i)
	}
	return false
}

// continueAfter resumes execution of the block after instruction `after` in a forked state.
func (x *fnExec) continueAfter(st *State, after ssa.Instruction) {
	b := after.Block()
	idx := -1
	for k, in := range b.Instrs {
		if in == after {
			idx = k
		}
	}
	var next *ssa.BasicBlock
	for _, in := range b.Instrs[idx+1:] {
		if !x.execInstr(st, in) {
			return
		}
		switch t := in.(type) {
		case *ssa.Jump:
			next = b.Succs[0]
		case *ssa.If:
			cond := x.val(st, t.Cond)
			other := st.fork()
			x.v.pathCounter++
			other.pathID = x.v.pathCounter
			other.assume(not(cond.S))
			st.assume(cond.S)
			x.execBlock(other, b.Succs[1], b)
			next = b.Succs[0]
		}
	}
	if next != nil {
		x.execBlock(st, next, b)
	}
}

// ---- return ----

func (x *fnExec) execReturn(st *State, r *ssa.Return) {
	ord := x.siteOrd[r]
	if x.c.NoReturn {
		x.emit(st, fmt.Sprintf("noreturn#%d", ord), "noreturn", "noreturn", nil, "false", "function must not return")
		return
	}
	c := x.ctx(st)
	for k, rv := range r.Results {
		if k < len(x.results) {
			t := x.val(st, rv)
			c.vars[x.results[k]] = t
		}
	}
	// ghost assignments at return (all right-hand sides are evaluated in the state before the first assignment)
	if len(x.c.GhostSets) > 0 {
		var vals []Term
		for _, gs := range x.c.GhostSets {
			t, err := x.evalIn(st, c, gs.E)
			if err != nil {
				fail("%s: ghost set %s: %v", x.fnName(), gs.Var, err)
			}
			vals = append(vals, t)
		}
		for k, gs := range x.c.GhostSets {
			g, ok := x.v.cs.GhostVars[gs.Var]
			if !ok {
				fail("%s: ghost set of unknown ghost variable %s", x.fnName(), gs.Var)
			}
			_, gsort := x.v.resolveType(g.Type, x.pkg)
			if gsort != vals[k].Sort {
				fail("%s: ghost set %s: sort %s, want %s", x.fnName(), gs.Var, vals[k].Sort, gsort)
			}
			st.heapSet(x.v, "GH_"+gs.Var, gsort, vals[k].S)
		}
		c = x.ctx(st)
		for k, rv := range r.Results {
			if k < len(x.results) {
				c.vars[x.results[k]] = x.val(st, rv)
			}
		}
	}
	for _, e := range x.c.Ensures {
		g := x.evalClause(st, c, e)
		x.emit(st, fmt.Sprintf("ensures.%s#%d", e.Label, ord), "ensures", e.Label, e.Props, g, e.Src)
	}
	// atreturn: obligations at every return that may mention local variables (not visible to callers)
	for _, e := range x.c.AtReturn {
		g := x.evalClause(st, c, e)
		x.emit(st, fmt.Sprintf("atreturn.%s#%d", e.Label, ord), "atreturn", e.Label, e.Props, g, "at return: "+e.Src)
	}
	x.checkFrame(st, ord)
}

type frameSpec struct {
	all          bool
	freshOnly    bool
	allowedWhole map[string]bool
	allowedLocs  map[string][]string
}

func (x *fnExec) frameSpecOf(st *State) *frameSpec {
	fs := &frameSpec{allowedWhole: map[string]bool{}, allowedLocs: map[string][]string{}}
	c := x.ctx(st)
	cOld := *c
	cOld.inOld = true
	for _, m := range x.c.Modifies {
		m = strings.TrimSpace(m)
		if m == "*" {
			fs.all = true
			continue
		}
		if m == "fresh" {
			fs.freshOnly = true
			continue
		}
		single := x.modSingle(m, x.c, &cOld)
		names, a := x.modTargetHeaps(m, x.c)
		if a {
			fs.all = true
		}
		for _, n := range names {
			if single == "" {
				fs.allowedWhole[n] = true
			} else if single == "$none" {
				if fs.allowedLocs[n] == nil {
					fs.allowedLocs[n] = []string{}
				}
			} else {
				fs.allowedLocs[n] = append(fs.allowedLocs[n], single)
			}
		}
	}
	return fs
}

// frameGoal: the formula stating that heap variable name (current symbol cur) differs from its entry value only where allowed.
func (x *fnExec) frameGoal(fs *frameSpec, name, cur string) (string, bool) {
	v := x.v
	if fs.all || fs.allowedWhole[name] || name == "$alloc" || strings.HasPrefix(name, "CELL_") || strings.HasPrefix(name, "ARR_") {
		return "", false
	}
	hs := v.heapSorts[name]
	init := v.initialHeapSym(name, hs)
	if cur == init {
		return "", false
	}
	_ = fs.freshOnly // with `modifies fresh` unlisted arrays get exactly the generic goal below (old objects unchanged)
	if strings.HasPrefix(hs, "(Array Int ") && !strings.HasPrefix(name, "GH_") && !strings.HasPrefix(name, "G_") {
		conds := []string{"(> r!f 0)", "(< r!f " + x.entryAlloc + ")"}
		for _, ref := range fs.allowedLocs[name] {
			conds = append(conds, not(eq("r!f", ref)))
		}
		return "(forall ((r!f Int)) (=> " + and(conds...) + " " + eq(sel(cur, "r!f"), sel(init, "r!f")) + "))", true
	}
	return eq(cur, init), true
}

// checkFrame: every heap variable changed on this path must be covered by the modifies clause.
func (x *fnExec) checkFrame(st *State, ord int) {
	fs := x.frameSpecOf(st)
	if fs.all || x.c.TrustedFrame {
		return
	}
	if st.unknownHavoc {
		x.emit(st, fmt.Sprintf("frame.unknown-call#%d", ord), "frame", "unknown-call", nil, "false", "a call without contract may modify anything; modifies clause is not *")
		return
	}
	var changed []string
	for name := range st.heap {
		changed = append(changed, name)
	}
	sortStrings(changed)
	for _, name := range changed {
		goal, needed := x.frameGoal(fs, name, st.heap[name])
		if !needed {
			continue
		}
		x.emit(st, fmt.Sprintf("frame.%s#%d", name, ord), "frame", name, nil, goal, "not in modifies: "+name)
	}
}

func (x *fnExec) innerRef(c *EvalCtx, base Term, field string) string {
	v := x.v
	obj, index, _ := types.LookupFieldOrMethod(base.T, true, x.pkg, field)
	if obj == nil || len(index) <= 1 {
		return base.S
	}
	cur := base
	for _, idx := range index[:len(index)-1] {
		st, named := derefStruct(cur.T)
		cur = v.fieldRead(c, cur.S, named, st, idx)
	}
	return cur.S
}

func sortStrings(xs []string) {
	for i := 1; i < len(xs); i++ {
		for j := i; j > 0 && xs[j] < xs[j-1]; j-- {
			xs[j], xs[j-1] = xs[j-1], xs[j]
		}
	}
}

func (x *fnExec) chanInvsFor(elem types.Type) []*ChanInv {
	var out []*ChanInv
	for _, ci := range x.v.cs.ChanInvs {
		t, _ := x.v.resolveType(ci.TypeText, x.v.pkgByPath(ci.PkgPath))
		if t != nil && types.Identical(t, elem) {
			out = append(out, ci)
		}
	}
	return out
}

// chanInvSend: every value sent on a channel must satisfy the channel invariants of the element type (guarantee).
func (x *fnExec) chanInvSend(st *State, in ssa.Instruction, ch Term, val Term, cht types.Type) {
	ct, ok := cht.Underlying().(*types.Chan)
	if !ok {
		return
	}
	for _, ci := range x.chanInvsFor(ct.Elem()) {
		c := x.ctx(st)
		c.pkg = x.v.pkgByPath(ci.PkgPath)
		c.vars["$v"] = val
		c.vars["$ch"] = ch
		t, err := x.evalIn(st, c, ci.E)
		if err != nil {
			fail("chaninv %s: %v", ci.Label, err)
		}
		props := ci.Props
		if len(props) == 0 {
			props = x.c.Props
		}
		x.emit(st, fmt.Sprintf("chaninv.%s#%d", ci.Label, x.siteOrd[in]), "chaninv", ci.Label, props, t.S, "value sent must satisfy: "+ci.Src)
	}
}

// chanEscapes: may a channel of type t made in fn become reachable for code other than fn, its closures and the
// go-routines started from them? (conservative syntactic scan: stored into the heap, sent, passed to a call, returned,
// boxed into an interface)
func chanEscapes(fn *ssa.Function, t types.Type) bool {
	root := fn
	for root.Parent() != nil {
		root = root.Parent()
	}
	var scan func(f *ssa.Function) bool
	same := func(v ssa.Value) bool { return v != nil && types.Identical(v.Type(), t) }
	scan = func(f *ssa.Function) bool {
		for _, b := range f.Blocks {
			for _, in := range b.Instrs {
				switch i := in.(type) {
				case *ssa.Store:
					if same(i.Val) {
						switch a := i.Addr.(type) {
						case *ssa.Alloc, *ssa.FreeVar:
							_ = a
						default:
							return true
						}
					}
				case *ssa.MapUpdate:
					if same(i.Value) || same(i.Key) {
						return true
					}
				case *ssa.Send:
					if same(i.X) {
						return true
					}
				case *ssa.Return:
					for _, r := range i.Results {
						if same(r) {
							return true
						}
					}
				case *ssa.MakeInterface:
					if same(i.X) {
						return true
					}
				case ssa.CallInstruction:
					c := i.Common()
					if b, ok := c.Value.(*ssa.Builtin); ok && (b.Name() == "close" || b.Name() == "len" || b.Name() == "cap") {
						continue
					}
					for _, a := range c.Args {
						if same(a) {
							return true
						}
					}
				}
			}
		}
		for _, af := range f.AnonFuncs {
			if scan(af) {
				return true
			}
		}
		return false
	}
	return scan(root)
}
