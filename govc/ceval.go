package main

// Evaluation of contract expressions to SMT terms in a symbolic state.

import (
	"fmt"
	"go/constant"
	"go/types"
	"strconv"
	"strings"
)

type EvalCtx struct {
	v     *Verifier
	pkg   *types.Package
	vars  map[string]Term // parameters, results, local names, bound variables
	st    *State          // current state (heap versions)
	old   *heapSnap       // heap snapshot for old(); nil => initial versions
	inOld bool
	depth int
	prev  map[string]Term // values at the previous loop head (for step clauses)
	facts *[]string       // side facts (heap closedness) collected during evaluation of ground terms
}

func (c *EvalCtx) with(name string, t Term) *EvalCtx {
	n := *c
	n.vars = make(map[string]Term, len(c.vars)+1)
	for k, v := range c.vars {
		n.vars[k] = v
	}
	n.vars[name] = t
	return &n
}

func (c *EvalCtx) heapVar(name, sort string) string {
	if c.inOld {
		if c.old != nil {
			return c.old.get(c.v, c.st, name, sort)
		}
		return c.v.initialHeapSym(name, sort)
	}
	return c.st.heapGet(c.v, name, sort)
}

type evalErr struct{ msg string }

func (e evalErr) Error() string { return e.msg }

func fail(format string, a ...interface{}) { panic(evalErr{fmt.Sprintf(format, a...)}) }

func (c *EvalCtx) Eval(e Expr) (t Term, err error) {
	defer func() {
		if r := recover(); r != nil {
			if ee, ok := r.(evalErr); ok {
				err = ee
				return
			}
			panic(r)
		}
	}()
	return c.eval(e), nil
}

func (c *EvalCtx) evalBool(e Expr) Term {
	t := c.eval(e)
	if t.Sort != sBool {
		fail("expected Bool, got %s in %s", t.Sort, e.String())
	}
	return t
}

// resolveType parses a textual type in the scope of pkg.
func (v *Verifier) resolveType(txt string, pkg *types.Package) (types.Type, string) {
	txt = strings.TrimSpace(txt)
	switch txt {
	case "int":
		return types.Typ[types.Int], sInt
	case "string":
		return types.Typ[types.String], sString
	case "bool":
		return types.Typ[types.Bool], sBool
	case "ref":
		return nil, sInt
	case "time":
		return nil, sInt
	}
	if strings.HasPrefix(txt, "set[") && strings.HasSuffix(txt, "]") {
		_, es := v.resolveType(txt[4:len(txt)-1], pkg)
		return nil, arrSort(es, sBool)
	}
	if strings.HasPrefix(txt, "seq[") && strings.HasSuffix(txt, "]") {
		et, es := v.resolveType(txt[4:len(txt)-1], pkg)
		if et != nil {
			return types.NewSlice(et), v.decls.sliceOf(es)
		}
		return nil, v.decls.sliceOf(es)
	}
	if strings.HasPrefix(txt, "arr[") {
		// arr[K]V : ghost total map
		i := matchingBracket(txt, 3)
		_, ks := v.resolveType(txt[4:i], pkg)
		_, vs := v.resolveType(txt[i+1:], pkg)
		return nil, arrSort(ks, vs)
	}
	if strings.HasPrefix(txt, "[]") {
		et, es := v.resolveType(txt[2:], pkg)
		if et != nil {
			t := types.NewSlice(et)
			return t, v.decls.sortOf(t)
		}
		return nil, v.decls.sliceOf(es)
	}
	if strings.HasPrefix(txt, "map[") {
		i := matchingBracket(txt, 3)
		kt, _ := v.resolveType(txt[4:i], pkg)
		vt, _ := v.resolveType(txt[i+1:], pkg)
		if kt == nil || vt == nil {
			fail("map type with ghost component: %s", txt)
		}
		return types.NewMap(kt, vt), sInt
	}
	if strings.HasPrefix(txt, "chan") {
		et, _ := v.resolveType(strings.TrimSpace(txt[4:]), pkg)
		if et == nil {
			fail("chan of ghost type: %s", txt)
		}
		return types.NewChan(types.SendRecv, et), sInt
	}
	if strings.HasPrefix(txt, "*") {
		et, _ := v.resolveType(txt[1:], pkg)
		if et == nil {
			fail("pointer to ghost type: %s", txt)
		}
		return types.NewPointer(et), sInt
	}
	// named type, possibly qualified
	var obj types.Object
	if i := strings.LastIndex(txt, "."); i >= 0 {
		pn, tn := txt[:i], txt[i+1:]
		for _, p := range v.allTypesPkgs {
			if p.Name() == pn || p.Path() == pn {
				obj = p.Scope().Lookup(tn)
				if obj != nil {
					break
				}
			}
		}
	} else if pkg != nil {
		obj = pkg.Scope().Lookup(txt)
		if obj == nil {
			obj = types.Universe.Lookup(txt)
		}
	}
	if obj == nil {
		// search all packages by bare name
		for _, p := range v.allTypesPkgs {
			if o := p.Scope().Lookup(txt); o != nil {
				if _, ok := o.(*types.TypeName); ok {
					obj = o
					break
				}
			}
		}
	}
	tn, ok := obj.(*types.TypeName)
	if !ok || obj == nil {
		fail("unknown type %q", txt)
	}
	return tn.Type(), v.decls.sortOf(tn.Type())
}

func matchingBracket(s string, open int) int {
	depth := 0
	for i := open; i < len(s); i++ {
		switch s[i] {
		case '[':
			depth++
		case ']':
			depth--
			if depth == 0 {
				return i
			}
		}
	}
	fail("unbalanced brackets in type %q", s)
	return -1
}

func (c *EvalCtx) eval(e Expr) Term {
	c.depth++
	if c.depth > 200 {
		fail("contract expression too deep (recursive define?)")
	}
	defer func() { c.depth-- }()
	v := c.v
	switch e := e.(type) {
	case *EInt:
		n, _ := strconv.ParseInt(e.V, 10, 64)
		return mkTerm(smtInt(n), sInt, types.Typ[types.Int])
	case *EStr:
		return mkTerm(smtString(e.V), sString, types.Typ[types.String])
	case *EIdent:
		return c.evalIdent(e.Name)
	case *EUnary:
		x := c.eval(e.X)
		switch e.Op {
		case "!":
			if x.Sort != sBool {
				fail("! on non-bool in %s", e.String())
			}
			return mkTerm(not(x.S), sBool, nil)
		case "-":
			return mkTerm("(- "+x.S+")", sInt, x.T)
		}
	case *EBinary:
		return c.evalBinary(e)
	case *ESel:
		// package-qualified constant/var?
		if id, ok := e.X.(*EIdent); ok {
			if _, isVar := c.vars[id.Name]; !isVar {
				for _, p := range v.allTypesPkgs {
					if p.Name() == id.Name {
						if o := p.Scope().Lookup(e.Name); o != nil {
							return c.objTerm(o)
						}
					}
				}
			}
		}
		x := c.eval(e.X)
		return c.evalField(x, e.Name, e)
	case *EIndex:
		x := c.eval(e.X)
		i := c.eval(e.I)
		return c.evalIndex(x, i, e)
	case *ESlice:
		x := c.eval(e.X)
		if x.Sort == sString {
			lo := "0"
			if e.Lo != nil {
				lo = c.eval(e.Lo).S
			}
			hi := "(str.len " + x.S + ")"
			if e.Hi != nil {
				hi = c.eval(e.Hi).S
			}
			return mkTerm("(str.substr "+x.S+" "+lo+" (- "+hi+" "+lo+"))", sString, x.T)
		}
		fail("slicing of %s not supported in contracts: %s", x.Sort, e.String())
	case *ECall:
		return c.evalCall(e)
	case *EQuant:
		nc := c
		var bs []string
		for _, b := range e.Vars {
			t, s := v.resolveType(b.Type, c.pkg)
			name := "q!" + b.Name
			nc = nc.with(b.Name, mkTerm(name, s, t))
			bs = append(bs, "("+name+" "+s+")")
		}
		body := nc.evalBool(e.Body)
		q := "exists"
		if e.Forall {
			q = "forall"
		}
		return mkTerm("("+q+" ("+strings.Join(bs, " ")+") "+body.S+")", sBool, nil)
	}
	fail("cannot evaluate %T %s", e, e.String())
	return Term{}
}

func (c *EvalCtx) objTerm(o types.Object) Term {
	v := c.v
	switch o := o.(type) {
	case *types.Const:
		return constTerm(v, o.Val(), o.Type())
	case *types.Var:
		// package-level variable
		s := v.decls.sortOf(o.Type())
		name := "G_" + o.Pkg().Name() + "_" + o.Name()
		if ct, ok := v.constGlobals[name]; ok {
			ct.T = o.Type()
			return ct
		}
		return mkTerm(c.heapVar(name, s), s, o.Type())
	}
	fail("unsupported object %v", o)
	return Term{}
}

func constTerm(v *Verifier, val constant.Value, t types.Type) Term {
	switch val.Kind() {
	case constant.Bool:
		if constant.BoolVal(val) {
			return mkTerm("true", sBool, t)
		}
		return mkTerm("false", sBool, t)
	case constant.String:
		return mkTerm(smtString(constant.StringVal(val)), sString, t)
	case constant.Int:
		n, ok := constant.Int64Val(val)
		if !ok {
			fail("integer constant out of range")
		}
		return mkTerm(smtInt(n), sInt, t)
	}
	fail("unsupported constant kind %v", val.Kind())
	return Term{}
}

func (c *EvalCtx) evalIdent(name string) Term {
	v := c.v
	if t, ok := c.vars[name]; ok {
		return t
	}
	switch name {
	case "true":
		return mkTerm("true", sBool, types.Typ[types.Bool])
	case "false":
		return mkTerm("false", sBool, types.Typ[types.Bool])
	case "nil":
		return mkTerm("0", sInt, types.Typ[types.UntypedNil])
	case "$alloc":
		return mkTerm(c.heapVar("$alloc", sInt), sInt, nil)
	}
	if g, ok := v.cs.GhostVars[name]; ok {
		t, s := v.resolveType(g.Type, c.pkg)
		return mkTerm(c.heapVar("GH_"+name, s), s, t)
	}
	if c.pkg != nil {
		if o := c.pkg.Scope().Lookup(name); o != nil {
			switch o.(type) {
			case *types.Const, *types.Var:
				return c.objTerm(o)
			}
		}
	}
	fail("unknown identifier %q", name)
	return Term{}
}

func derefStruct(t types.Type) (*types.Struct, *types.Named) {
	if t == nil {
		return nil, nil
	}
	if p, ok := t.Underlying().(*types.Pointer); ok {
		t = p.Elem()
	}
	t = types.Unalias(t)
	n, _ := t.(*types.Named)
	s, _ := t.Underlying().(*types.Struct)
	return s, n
}

func (c *EvalCtx) evalField(x Term, name string, e Expr) Term {
	v := c.v
	if x.T == nil {
		fail("field %s of untyped term in %s", name, e.String())
	}
	obj, index, _ := types.LookupFieldOrMethod(x.T, true, c.pkg, name)
	fv, ok := obj.(*types.Var)
	if !ok || fv == nil {
		// try without package restriction (unexported field of another package)
		st, _ := derefStruct(x.T)
		if st != nil {
			for i := 0; i < st.NumFields(); i++ {
				if st.Field(i).Name() == name {
					fv = st.Field(i)
					index = []int{i}
					ok = true
				}
			}
		}
		if !ok {
			// unexported field of another package promoted through embedded structs
			if path := findFieldPath(x.T, name, 0); path != nil {
				index = path
				ok = true
			}
		}
		if !ok {
			fail("no field %s in %v (%s)", name, x.T, e.String())
		}
	}
	cur := x
	for _, idx := range index {
		st, named := derefStruct(cur.T)
		if st == nil || named == nil {
			fail("field path through non-struct %v in %s", cur.T, e.String())
		}
		cur = v.fieldRead(c, cur.S, named, st, idx)
	}
	return cur
}

// findFieldPath finds a (possibly promoted, possibly unexported) field by name, ignoring package boundaries.
func findFieldPath(t types.Type, name string, depth int) []int {
	if depth > 4 {
		return nil
	}
	st, _ := derefStruct(t)
	if st == nil {
		return nil
	}
	for i := 0; i < st.NumFields(); i++ {
		if st.Field(i).Name() == name {
			return []int{i}
		}
	}
	for i := 0; i < st.NumFields(); i++ {
		if st.Field(i).Embedded() {
			if p := findFieldPath(st.Field(i).Type(), name, depth+1); p != nil {
				return append([]int{i}, p...)
			}
		}
	}
	return nil
}

// fieldRead reads field idx of struct object ref (Int term). Struct-valued fields yield the embedded ref.
func (v *Verifier) fieldRead(c *EvalCtx, ref string, named *types.Named, st *types.Struct, idx int) Term {
	f := st.Field(idx)
	if v.isEmbeddedStructField(f.Type()) {
		return mkTerm("("+v.embFunc(named, f)+" "+ref+")", sInt, types.NewPointer(f.Type()))
	}
	s := v.decls.sortOf(f.Type())
	hv := v.fieldHeapName(named, f)
	t := mkTerm(sel(c.heapVar(hv, arrSort(sInt, s)), ref), s, f.Type())
	c.closedFact(ref, "", t)
	return t
}

// closedFact records heap closedness for a ground ref-valued read: an allocated object's pointer fields
// (and the values of an allocated map) refer to allocated objects or nil.
func (c *EvalCtx) closedFact(base, guard string, val Term) {
	if c.facts == nil || c.st == nil || !isRefType(val.T) {
		return
	}
	if strings.Contains(val.S, "q!") || strings.HasPrefix(base, "(emb_") && strings.Contains(base, "q!") {
		return
	}
	a := c.st.heapGet(c.v, "$alloc", sInt)
	pre := "(and (> " + base + " 0) (< " + base + " " + a + "))"
	if strings.HasPrefix(base, "(emb_") {
		// embedded struct: allocatedness is that of the outer object; be permissive
		pre = "true"
	}
	if guard != "" {
		pre = and(pre, guard)
	}
	*c.facts = append(*c.facts, implies(pre, "(and (>= "+val.S+" 0) (< "+val.S+" "+a+"))"))
	if f := c.v.rtypeFact(val); f != "" {
		*c.facts = append(*c.facts, implies(pre, f))
	}
}

func (v *Verifier) isEmbeddedStructField(t types.Type) bool {
	if namedString(t) == "time.Time" {
		return false
	}
	if _, ok := t.Underlying().(*types.Struct); ok {
		return true
	}
	return false
}

func typeShort(n *types.Named) string {
	p := ""
	if n.Obj().Pkg() != nil {
		p = n.Obj().Pkg().Name() + "_"
	}
	return p + n.Obj().Name()
}

func (v *Verifier) fieldHeapName(n *types.Named, f *types.Var) string {
	name := "F_" + typeShort(n) + "_" + f.Name()
	if isRefType(f.Type()) && namedString(f.Type()) != "time.Time" {
		v.heapIsRef[name] = "field"
		if _, isPtr := f.Type().Underlying().(*types.Pointer); isPtr && f.Embedded() {
			v.embeddedPtr[name] = true
		}
	}
	return name
}

func (v *Verifier) embFunc(n *types.Named, f *types.Var) string {
	name := "emb_" + typeShort(n) + "_" + f.Name()
	v.decls.add("fun:"+name, "(declare-fun "+name+" (Int) Int)")
	return name
}

func (c *EvalCtx) mapArrays(mt *types.Map) (dom, val, ln string, ks, vs string) {
	v := c.v
	ks = v.decls.sortOf(mt.Key())
	vs = v.decls.sortOf(mt.Elem())
	m := v.mapTypeName(mt)
	dom = c.heapVar("MD_"+m, arrSort(sInt, arrSort(ks, sBool)))
	val = c.heapVar("MV_"+m, arrSort(sInt, arrSort(ks, vs)))
	ln = c.heapVar("ML_"+m, arrSort(sInt, sInt))
	return
}

func (v *Verifier) mapTypeName(mt *types.Map) string {
	n := mangleSort(v.decls.sortOf(mt.Key())) + "__" + typeMangle(mt.Elem())
	if isRefType(mt.Elem()) {
		v.heapIsRef["MV_"+n] = "mapval:" + v.decls.sortOf(mt.Key())
	}
	return n
}

// typeMangle gives a name for the element type that distinguishes pointer targets (so that
// map[string]*FileIP and map[string]*InPort do not share arrays).
func typeMangle(t types.Type) string {
	switch u := t.(type) {
	case *types.Named:
		return typeShort(u)
	case *types.Pointer:
		return "P" + typeMangle(u.Elem())
	case *types.Slice:
		return "S" + typeMangle(u.Elem())
	case *types.Map:
		return "M" + typeMangle(u.Key()) + "_" + typeMangle(u.Elem())
	case *types.Basic:
		return u.Name()
	case *types.Signature:
		return "func"
	case *types.Interface:
		return "iface"
	case *types.Chan:
		return "C" + typeMangle(u.Elem())
	case *types.Struct:
		return "struct"
	}
	return "T"
}

func (c *EvalCtx) evalIndex(x, i Term, e Expr) Term {
	v := c.v
	if x.T != nil {
		if mt, ok := x.T.Underlying().(*types.Map); ok {
			dom, val, _, _, vs := c.mapArrays(mt)
			raw := mkTerm(sel(sel(val, x.S), i.S), vs, mt.Elem())
			if !strings.Contains(i.S, "q!") {
				c.closedFact(x.S, sel(sel(dom, x.S), i.S), raw)
			}
			// Go semantics: a missing key yields the zero value
			t := mkTerm("(ite "+sel(sel(dom, x.S), i.S)+" "+raw.S+" "+zeroOf(vs)+")", vs, mt.Elem())
			return t
		}
	}
	if x.Sort == sString {
		return mkTerm("(str.to_code (str.at "+x.S+" "+i.S+"))", sInt, types.Typ[types.Uint8])
	}
	if isSliceSort(x.Sort) {
		var et types.Type
		if x.T != nil {
			if st, ok := x.T.Underlying().(*types.Slice); ok {
				et = st.Elem()
			}
		}
		return mkTerm(sel(sliceElems(x), i.S), sliceElem[x.Sort], et)
	}
	if strings.HasPrefix(x.Sort, "(Array ") {
		_, es := splitArraySort(x.Sort)
		_ = v
		return mkTerm(sel(x.S, i.S), es, nil)
	}
	fail("cannot index %s in %s", x.Sort, e.String())
	return Term{}
}

func (c *EvalCtx) evalBinary(e *EBinary) Term {
	switch e.Op {
	case "&&":
		return mkTerm(and(c.evalBool(e.X).S, c.evalBool(e.Y).S), sBool, nil)
	case "||":
		return mkTerm(or(c.evalBool(e.X).S, c.evalBool(e.Y).S), sBool, nil)
	case "==>":
		return mkTerm(implies(c.evalBool(e.X).S, c.evalBool(e.Y).S), sBool, nil)
	case "<==>":
		return mkTerm(eq(c.evalBool(e.X).S, c.evalBool(e.Y).S), sBool, nil)
	case "in":
		x := c.eval(e.X)
		y := c.eval(e.Y)
		if y.T != nil {
			if mt, ok := y.T.Underlying().(*types.Map); ok {
				dom, _, _, _, _ := c.mapArrays(mt)
				return mkTerm(sel(sel(dom, y.S), x.S), sBool, nil)
			}
		}
		if strings.HasPrefix(y.Sort, "(Array ") {
			return mkTerm(sel(y.S, x.S), sBool, nil)
		}
		fail("'in' on %s in %s", y.Sort, e.String())
	}
	x := c.eval(e.X)
	y := c.eval(e.Y)
	switch e.Op {
	case "==", "!=":
		if x.Sort != y.Sort {
			fail("sort mismatch %s vs %s in %s", x.Sort, y.Sort, e.String())
		}
		r := eq(x.S, y.S)
		if e.Op == "!=" {
			r = not(r)
		}
		return mkTerm(r, sBool, nil)
	case "<", "<=", ">", ">=":
		if x.Sort == sString {
			op := map[string]string{"<": "str.<", "<=": "str.<="}[e.Op]
			if op == "" {
				// a > b == b < a
				op = map[string]string{">": "str.<", ">=": "str.<="}[e.Op]
				return mkTerm("("+op+" "+y.S+" "+x.S+")", sBool, nil)
			}
			return mkTerm("("+op+" "+x.S+" "+y.S+")", sBool, nil)
		}
		return mkTerm("("+e.Op+" "+x.S+" "+y.S+")", sBool, nil)
	case "+":
		if x.Sort == sString {
			return mkTerm("(str.++ "+x.S+" "+y.S+")", sString, x.T)
		}
		return mkTerm("(+ "+x.S+" "+y.S+")", sInt, x.T)
	case "-":
		return mkTerm("(- "+x.S+" "+y.S+")", sInt, x.T)
	case "*":
		return mkTerm("(* "+x.S+" "+y.S+")", sInt, x.T)
	case "/":
		return mkTerm("(div "+x.S+" "+y.S+")", sInt, x.T)
	case "%":
		return mkTerm("(mod "+x.S+" "+y.S+")", sInt, x.T)
	}
	fail("unknown operator %s", e.Op)
	return Term{}
}

func (c *EvalCtx) evalCall(e *ECall) Term {
	v := c.v
	arg := func(i int) Term {
		if i >= len(e.Args) {
			fail("too few arguments in %s", e.String())
		}
		return c.eval(e.Args[i])
	}
	switch e.Fn {
	case "old":
		n := *c
		n.inOld = true
		return n.eval(e.Args[0])
	case "prev":
		id, ok := e.Args[0].(*EIdent)
		if !ok || c.prev == nil {
			fail("prev(x) needs an identifier and is only available in loop step clauses")
		}
		t, ok := c.prev[id.Name]
		if !ok {
			fail("prev(%s): not a loop variable", id.Name)
		}
		return t
	case "len":
		x := arg(0)
		if x.T != nil {
			if mt, ok := x.T.Underlying().(*types.Map); ok {
				dom, _, ln, ks, _ := c.mapArrays(mt)
				l := sel(ln, x.S)
				if c.facts != nil && !strings.Contains(x.S, "q!") {
					// invariant of Go maps: the length is non-negative and zero exactly for the empty domain
					*c.facts = append(*c.facts, "(>= "+l+" 0)",
						"(= (= "+l+" 0) (forall ((k!l "+ks+")) (not "+sel(sel(dom, x.S), "k!l")+")))")
				}
				return mkTerm(l, sInt, types.Typ[types.Int])
			}
		}
		if x.Sort == sString {
			return mkTerm("(str.len "+x.S+")", sInt, types.Typ[types.Int])
		}
		if isSliceSort(x.Sort) {
			return mkTerm(sliceLen(x), sInt, types.Typ[types.Int])
		}
		fail("len of %s in %s", x.Sort, e.String())
	case "ite":
		cnd, a, b := c.evalBool(e.Args[0]), arg(1), arg(2)
		if a.Sort != b.Sort {
			fail("ite branches differ in sort in %s", e.String())
		}
		return mkTerm("(ite "+cnd.S+" "+a.S+" "+b.S+")", a.Sort, a.T)
	case "hasPrefix":
		return mkTerm("(str.prefixof "+arg(1).S+" "+arg(0).S+")", sBool, nil)
	case "hasSuffix":
		return mkTerm("(str.suffixof "+arg(1).S+" "+arg(0).S+")", sBool, nil)
	case "contains":
		return mkTerm("(str.contains "+arg(0).S+" "+arg(1).S+")", sBool, nil)
	case "indexOf":
		return mkTerm("(str.indexof "+arg(0).S+" "+arg(1).S+" 0)", sInt, types.Typ[types.Int])
	case "substr":
		return mkTerm("(str.substr "+arg(0).S+" "+arg(1).S+" "+arg(2).S+")", sString, types.Typ[types.String])
	case "replaceFirst":
		return mkTerm("(str.replace "+arg(0).S+" "+arg(1).S+" "+arg(2).S+")", sString, types.Typ[types.String])
	case "charAt":
		return mkTerm("(str.at "+arg(0).S+" "+arg(1).S+")", sString, types.Typ[types.String])
	case "matches", "fullMatch":
		x := arg(0)
		lit, ok := e.Args[1].(*EStr)
		if !ok {
			fail("%s needs a literal pattern", e.Fn)
		}
		var t string
		var err error
		if e.Fn == "matches" {
			t, err = reMatchTerm(x.S, lit.V)
		} else {
			t, err = reFullTerm(x.S, lit.V)
		}
		if err != nil {
			fail("%v", err)
		}
		return mkTerm(t, sBool, nil)
	case "dom":
		x := arg(0)
		if x.T != nil {
			if mt, ok := x.T.Underlying().(*types.Map); ok {
				dom, _, _, ks, _ := c.mapArrays(mt)
				return mkTerm(sel(dom, x.S), arrSort(ks, sBool), nil)
			}
		}
		fail("dom of non-map in %s", e.String())
	case "vals":
		x := arg(0)
		if x.T != nil {
			if mt, ok := x.T.Underlying().(*types.Map); ok {
				_, val, _, ks, vs := c.mapArrays(mt)
				return mkTerm(sel(val, x.S), arrSort(ks, vs), nil)
			}
		}
		fail("vals of non-map in %s", e.String())
	case "fresh":
		x := arg(0)
		n := *c
		n.inOld = true
		return mkTerm("(>= "+x.S+" "+n.heapVar("$alloc", sInt)+")", sBool, nil)
	case "allocated":
		x := arg(0)
		return mkTerm("(and (> "+x.S+" 0) (< "+x.S+" "+c.heapVar("$alloc", sInt)+"))", sBool, nil)
	case "ptr":
		// ptr(T, e): the reference e viewed as a *T (typing only)
		id, ok := e.Args[0].(*EIdent)
		if !ok {
			fail("ptr needs a type name")
		}
		pt, _ := v.resolveType("*"+id.Name, c.pkg)
		x := arg(1)
		if x.Sort != sInt || pt == nil {
			fail("ptr(%s, ...) of a non-reference", id.Name)
		}
		return mkTerm(x.S, sInt, pt)
	case "emptyset":
		// emptyset(T)
		id, ok := e.Args[0].(*EIdent)
		if !ok {
			fail("emptyset needs a type name")
		}
		_, s := v.resolveType(id.Name, c.pkg)
		as := arrSort(s, sBool)
		return mkTerm("((as const "+as+") false)", as, nil)
	case "setAdd":
		s, x := arg(0), arg(1)
		return mkTerm(store(s.S, x.S, "true"), s.Sort, nil)
	case "setDel":
		s, x := arg(0), arg(1)
		return mkTerm(store(s.S, x.S, "false"), s.Sort, nil)
	case "update":
		a, i, x := arg(0), arg(1), arg(2)
		return mkTerm(store(a.S, i.S, x.S), a.Sort, nil)
	case "chanRecvA":
		ch := c.eval(e.Args[0])
		return mkTerm(sel(c.heapVar("CH_recva", arrSort(sInt, sInt)), ch.S), sInt, nil)
	case "chanSentN", "chanRecvN", "chanTotal", "chanClosed", "chanCap", "chanSentAt", "chanInAt":
		return c.evalChanFn(e)
	}
	// special per-state symbols
	if strings.HasPrefix(e.Fn, "$") {
		fail("unknown special function %s", e.Fn)
	}
	gf, ok := v.cs.GhostFuncs[e.Fn]
	if !ok {
		fail("unknown function %q in %s", e.Fn, e.String())
	}
	if len(e.Args) != len(gf.Params) {
		fail("wrong number of arguments to %s in %s", e.Fn, e.String())
	}
	if gf.Def != nil {
		// macro expansion: parameters bound to argument terms; evaluated in the current heap context
		nc := *c
		nc.vars = make(map[string]Term, len(c.vars)+len(gf.Params))
		// defines see only their parameters (plus globals), not the caller's locals
		for i, p := range gf.Params {
			a := c.eval(e.Args[i])
			pt, ps := v.resolveType(p.Type, c.pkg)
			if ps != a.Sort {
				fail("argument %d of %s has sort %s, want %s (%s)", i, e.Fn, a.Sort, ps, e.String())
			}
			if a.T == nil {
				a.T = pt
			}
			nc.vars[p.Name] = a
		}
		r := nc.eval(gf.Def)
		rt, rs := v.resolveType(gf.Result, c.pkg)
		if rs != r.Sort {
			fail("define %s yields %s, declared %s", e.Fn, r.Sort, rs)
		}
		if r.T == nil {
			r.T = rt
		}
		return r
	}
	// uninterpreted (or interpreted in refutation mode)
	var as []string
	for i := range gf.Params {
		a := c.eval(e.Args[i])
		_, ps := v.resolveType(gf.Params[i].Type, c.pkg)
		if ps != a.Sort {
			fail("argument %d of %s has sort %s, want %s (%s)", i, e.Fn, a.Sort, ps, e.String())
		}
		as = append(as, a.S)
	}
	rt, rs := v.resolveType(gf.Result, c.pkg)
	v.declareGhostFunc(gf, c.pkg)
	if len(as) == 0 {
		return mkTerm(gf.Name, rs, rt)
	}
	return mkTerm("("+gf.Name+" "+strings.Join(as, " ")+")", rs, rt)
}

func (v *Verifier) declareGhostFunc(gf *GhostFunc, pkg *types.Package) {
	key := "gfun:" + gf.Name
	if v.decls.seen[key] {
		return
	}
	var ps, names []string
	for _, p := range gf.Params {
		_, s := v.resolveType(p.Type, pkg)
		ps = append(ps, s)
		names = append(names, "("+p.Name+" "+s+")")
	}
	_, rs := v.resolveType(gf.Result, pkg)
	if gf.Interp != "" {
		body := gf.Interp
		if strings.HasPrefix(body, "expr:") {
			// interpretation given as a contract expression over the parameters
			e, err := parseExpr(strings.TrimSpace(body[5:]))
			if err != nil {
				fail("interp of %s: %v", gf.Name, err)
			}
			ic := &EvalCtx{v: v, pkg: pkg, vars: map[string]Term{}}
			for i, p := range gf.Params {
				pt, _ := v.resolveType(p.Type, pkg)
				ic.vars[p.Name] = mkTerm(p.Name, ps[i], pt)
			}
			t, err := ic.Eval(e)
			if err != nil {
				fail("interp of %s: %v", gf.Name, err)
			}
			body = t.S
		}
		kw := "define-fun"
		if strings.Contains(body, "("+gf.Name+" ") {
			kw = "define-fun-rec" // recursive interpretation (refutation / candidate queries only)
		}
		v.decls.interp[key] = "(" + kw + " " + gf.Name + " (" + strings.Join(names, " ") + ") " + rs + " " + body + ")"
	}
	v.decls.add(key, "(declare-fun "+gf.Name+" ("+strings.Join(ps, " ")+") "+rs+")")
}

// channel ghost functions: chanSentN(ch), chanRecvN(ch), chanTotal(ch), chanClosed(ch), chanCap(ch),
// chanSentAt(ch, i), chanInAt(ch, i)
func (c *EvalCtx) evalChanFn(e *ECall) Term {
	v := c.v
	ch := c.eval(e.Args[0])
	var et types.Type
	es := sInt
	if ch.T != nil {
		if ct, ok := ch.T.Underlying().(*types.Chan); ok {
			et = ct.Elem()
			es = v.decls.sortOf(et)
		}
	}
	switch e.Fn {
	case "chanSentN":
		t := mkTerm(sel(c.heapVar("CH_sentn", arrSort(sInt, sInt)), ch.S), sInt, nil)
		if c.facts != nil && !strings.Contains(ch.S, "q!") {
			*c.facts = append(*c.facts, "(<= 0 "+t.S+")")
		}
		return t
	case "chanRecvN":
		t := mkTerm(sel(c.heapVar("CH_recvn", arrSort(sInt, sInt)), ch.S), sInt, nil)
		if c.facts != nil && !strings.Contains(ch.S, "q!") {
			// by definition of the prophecy sequence: 0 <= received so far <= total ever received
			v.decls.add("fun:CH_total", "(declare-fun CH_total (Int) Int)")
			*c.facts = append(*c.facts, "(and (<= 0 "+t.S+") (<= "+t.S+" (CH_total "+ch.S+")))")
		}
		return t
	case "chanClosed":
		return mkTerm(sel(c.heapVar("CH_closed", arrSort(sInt, sBool)), ch.S), sBool, nil)
	case "chanTotal":
		v.decls.add("fun:CH_total", "(declare-fun CH_total (Int) Int)")
		return mkTerm("(CH_total "+ch.S+")", sInt, nil)
	case "chanCap":
		v.decls.add("fun:CH_cap", "(declare-fun CH_cap (Int) Int)")
		return mkTerm("(CH_cap "+ch.S+")", sInt, nil)
	case "chanSentAt":
		i := c.eval(e.Args[1])
		a := c.heapVar("CH_sent_"+mangleSort(es), arrSort(sInt, arrSort(sInt, es)))
		return mkTerm(sel(sel(a, ch.S), i.S), es, et)
	case "chanInAt":
		i := c.eval(e.Args[1])
		fn := "CH_in_" + mangleSort(es)
		v.decls.add("fun:"+fn, "(declare-fun "+fn+" (Int Int) "+es+")")
		return mkTerm("("+fn+" "+ch.S+" "+i.S+")", es, et)
	}
	fail("bad chan function")
	return Term{}
}
