package components

// Bounded stand-in (NOT a proof) for the Cartesian-product clause of C19: the real `combine` of ParamCombinator is run
// on every input with at most 3 ports and at most 3 distinct values per port (every order of the key list), and its
// result is compared with the Cartesian product computed independently: all rows aligned, every tuple exactly once.
// Injected with go test -overlay by `govc` (contract line `bounded`); prints BOUNDED-OK <cases> or BOUNDED-FAIL <input>.

import (
	"fmt"
	"sort"
	"strings"
	"testing"
)

func govcPerms(xs []string) [][]string {
	if len(xs) <= 1 {
		return [][]string{append([]string{}, xs...)}
	}
	var out [][]string
	for i := range xs {
		rest := append(append([]string{}, xs[:i]...), xs[i+1:]...)
		for _, p := range govcPerms(rest) {
			out = append(out, append([]string{xs[i]}, p...))
		}
	}
	return out
}

func TestGovcBoundedCombineParam(t *testing.T) {
	names := []string{"a", "b", "c"}
	cases := 0
	for nPorts := 1; nPorts <= 3; nPorts++ {
		lens := make([]int, nPorts)
		var rec func(i int)
		rec = func(i int) {
			if i < nPorts {
				for l := 0; l <= 3; l++ {
					lens[i] = l
					rec(i + 1)
				}
				return
			}
			for _, keys := range govcPerms(names[:nPorts]) {
				in := map[string][]string{}
				for pi, k := range names[:nPorts] {
					in[k] = []string{}
					for v := 0; v < lens[pi]; v++ {
						in[k] = append(in[k], fmt.Sprintf("%s%d", k, v))
					}
				}
				want := map[string]int{}
				var prod func(pi int, cur []string)
				prod = func(pi int, cur []string) {
					if pi == nPorts {
						want[strings.Join(cur, ",")]++
						return
					}
					for _, v := range in[names[pi]] {
						prod(pi+1, append(append([]string{}, cur...), v))
					}
				}
				prod(0, nil)
				desc := fmt.Sprintf("in=%v keys=%v", in, keys)
				cp := map[string][]string{}
				for k, v := range in {
					cp[k] = append([]string{}, v...)
				}
				out := combine(cp, keys)
				n := -1
				for _, k := range names[:nPorts] {
					row, ok := out[k]
					if !ok && len(want) > 0 {
						t.Fatalf("BOUNDED-FAIL %s: no row for port %s", desc, k)
					}
					if n == -1 {
						n = len(row)
					} else if len(row) != n {
						t.Fatalf("BOUNDED-FAIL %s: rows not aligned: %v", desc, out)
					}
				}
				got := map[string]int{}
				for x := 0; x < n; x++ {
					var tup []string
					for _, k := range names[:nPorts] {
						tup = append(tup, out[k][x])
					}
					got[strings.Join(tup, ",")]++
				}
				var keysW []string
				for k := range want {
					keysW = append(keysW, k)
				}
				sort.Strings(keysW)
				if len(got) != len(want) {
					t.Fatalf("BOUNDED-FAIL %s: %d distinct tuples, want %d: %v", desc, len(got), len(want), out)
				}
				for _, k := range keysW {
					if got[k] != 1 {
						t.Fatalf("BOUNDED-FAIL %s: tuple %s emitted %d times: %v", desc, k, got[k], out)
					}
				}
				cases++
			}
		}
		rec(0)
	}
	fmt.Printf("BOUNDED-OK %d cases\n", cases)
}
