package components

// Bounded stand-in (NOT a proof) for the Cartesian-product clause of C19, FileCombinator: the real
// (*FileCombinator).combine is run on every input with at most 3 ports and at most 3 distinct files per port (every
// order of the key list); rows must be aligned and every tuple of the Cartesian product must occur exactly once.

import (
	"fmt"
	"sort"
	"strings"
	"testing"

	"github.com/scipipe/scipipe"
)

func TestGovcBoundedCombineFile(t *testing.T) {
	scipipe.InitLogError()
	names := []string{"a", "b", "c"}
	p := &FileCombinator{}
	cases := 0
	for nPorts := 1; nPorts <= 3; nPorts++ {
		lens := make([]int, nPorts)
		var rec func(i int)
		rec = func(i int) {
			if i < nPorts {
				for l := 0; l <= 3; l++ {
					lens[i] = l
					rec(i + 1)
				}
				return
			}
			for _, keys := range govcPerms(names[:nPorts]) {
				in := map[string][]*scipipe.FileIP{}
				paths := map[string][]string{}
				for pi, k := range names[:nPorts] {
					in[k] = []*scipipe.FileIP{}
					for v := 0; v < lens[pi]; v++ {
						ip, err := scipipe.NewFileIP(fmt.Sprintf("%s%d.txt", k, v))
						if err != nil {
							t.Fatal(err)
						}
						in[k] = append(in[k], ip)
						paths[k] = append(paths[k], ip.Path())
					}
				}
				want := map[string]int{}
				var prod func(pi int, cur []string)
				prod = func(pi int, cur []string) {
					if pi == nPorts {
						want[strings.Join(cur, ",")]++
						return
					}
					for _, v := range paths[names[pi]] {
						prod(pi+1, append(append([]string{}, cur...), v))
					}
				}
				prod(0, nil)
				desc := fmt.Sprintf("in=%v keys=%v", paths, keys)
				out := p.combine(in, keys)
				n := -1
				for _, k := range names[:nPorts] {
					row, ok := out[k]
					if !ok && len(want) > 0 {
						t.Fatalf("BOUNDED-FAIL %s: no row for port %s", desc, k)
					}
					if n == -1 {
						n = len(row)
					} else if len(row) != n {
						t.Fatalf("BOUNDED-FAIL %s: rows not aligned", desc)
					}
				}
				got := map[string]int{}
				for x := 0; x < n; x++ {
					var tup []string
					for _, k := range names[:nPorts] {
						tup = append(tup, out[k][x].Path())
					}
					got[strings.Join(tup, ",")]++
				}
				var keysW []string
				for k := range want {
					keysW = append(keysW, k)
				}
				sort.Strings(keysW)
				if len(got) != len(want) {
					t.Fatalf("BOUNDED-FAIL %s: %d distinct tuples, want %d", desc, len(got), len(want))
				}
				for _, k := range keysW {
					if got[k] != 1 {
						t.Fatalf("BOUNDED-FAIL %s: tuple %s emitted %d times", desc, k, got[k])
					}
				}
				cases++
			}
		}
		rec(0)
	}
	fmt.Printf("BOUNDED-OK %d cases\n", cases)
}
