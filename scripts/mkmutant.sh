#!/bin/bash
# usage: mkmutant.sh <name> <prop> <func-filter> ; reads a python snippet on stdin that edits files under /repo (cwd=/repo)
# creates /verif/mutants/<name>.patch with header lines "# prop: X" "# funcs: ..."
set -e
name=$1; prop=$2; funcs=$3
cd /repo
if [ -n "$(git status --porcelain --untracked-files=no)" ]; then echo "/repo not clean: commit contracts first (scripts/sync_contracts.sh)"; exit 2; fi
python3 - 
git diff > /tmp/mut_$$.diff
if [ ! -s /tmp/mut_$$.diff ]; then echo "EMPTY DIFF for $name"; rm -f /tmp/mut_$$.diff; exit 1; fi
{ echo "# prop: $prop"; echo "# funcs: $funcs"; cat /tmp/mut_$$.diff; } > /verif/mutants/$name.patch
rm -f /tmp/mut_$$.diff
git checkout -- .
echo "created $name"
