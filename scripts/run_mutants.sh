#!/bin/bash
# usage: run_mutants.sh [pattern]  -- applies each mutant to /repo, checks that it still builds, runs the property check, expects a VIOLATION, reverts.
export GOFLAGS=-mod=mod GOPROXY=off GOSUMDB=off GOTOOLCHAIN=local
cd /repo
if [ -n "$(git status --porcelain --untracked-files=no)" ]; then echo "/repo not clean"; exit 2; fi
pass=0; fail=0
for p in /verif/mutants/${1:-*}.patch; do
  name=$(basename $p .patch)
  prop=$(grep '^# prop:' $p | sed 's/# prop: //')
  grep -v '^# ' $p > /tmp/mut_apply.diff
  if ! git apply /tmp/mut_apply.diff 2>/tmp/mut_err; then echo "SKIP $name (does not apply: $(head -1 /tmp/mut_err))"; continue; fi
  if ! go build ./... 2>/tmp/mut_err; then echo "SKIP $name (does not build)"; git checkout -- .; continue; fi
  res=""
  for pr in $prop; do
    out=$(/verif/bin/govc check $pr 2>&1); rc=$?
    if [ $rc -eq 1 ] && echo "$out" | grep -q "^VIOLATION property=$pr"; then res="$res $pr:caught"; else res="$res $pr:MISSED(rc=$rc)"; fi
  done
  git checkout -- .
  if echo "$res" | grep -q caught; then pass=$((pass+1)); echo "OK   $name $res"; else fail=$((fail+1)); echo "MISS $name $res"; fi
done
echo "mutants caught: $pass, missed: $fail"
[ $fail -eq 0 ]
