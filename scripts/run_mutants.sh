#!/bin/bash
# usage: run_mutants.sh [pattern]  -- applies each mutant to a scratch worktree of /repo's HEAD (outside /repo and /verif),
# checks that it still builds, runs the property check on it, expects a VIOLATION, reverts. The worktree is removed at the end.
# Mutants under mutants/equivalent/ are must-PASS cases (semantically equivalent changes: no alarm may be raised).
export GOFLAGS=-mod=mod GOPROXY=off GOSUMDB=off GOTOOLCHAIN=local
wt=${MUT_WT:-/tmp/govc_mut_wt_$$}
git -C /repo worktree remove --force $wt 2>/dev/null
git -C /repo worktree add --detach -f $wt HEAD -q || exit 2
trap 'cd /; git -C /repo worktree remove --force $wt 2>/dev/null; git -C /repo worktree prune; rm -f $wt.diff $wt.err' EXIT
cd $wt
pass=0; fail=0
pat=${1:-*}; [ "$1" = "equivalent" ] && pat=__none__
for p in /verif/mutants/$pat.patch; do
  [ -f "$p" ] || continue
  name=$(basename $p .patch)
  prop=$(grep '^# prop:' $p | sed 's/# prop: //')
  grep -v '^# ' $p > $wt.diff
  if ! git apply $wt.diff 2>$wt.err; then echo "SKIP $name (does not apply: $(head -1 $wt.err))"; continue; fi
  if ! go build ./... 2>$wt.err; then echo "SKIP $name (does not build)"; git checkout -- .; continue; fi
  res=""
  for pr in $prop; do
    out=$(${GOVC:-/verif/bin/govc} check $pr --repo $wt --timeout ${MUT_TIMEOUT:-8} --noevidence 2>&1); rc=$?
    if [ $rc -eq 1 ] && echo "$out" | grep -q "^VIOLATION property=$pr"; then nf=$(echo "$out" | grep "^VIOLATION" | grep -vc "no-failing-input-found"); res="$res $pr:caught(replayed=$nf)"; else res="$res $pr:MISSED(rc=$rc)"; fi
  done
  git checkout -- .
  if echo "$res" | grep -q caught; then pass=$((pass+1)); echo "OK   $name $res"; else fail=$((fail+1)); echo "MISS $name $res"; fi
done
if [ -z "$1" ] || [ "$1" = "equivalent" ]; then
  for p in /verif/mutants/equivalent/*.patch; do
    [ -f "$p" ] || continue
    name=$(basename $p .patch)
    prop=$(grep '^# prop:' $p | sed 's/# prop: //')
    grep -v '^# ' $p > $wt.diff
    git apply $wt.diff 2>$wt.err || { echo "SKIP equivalent/$name"; continue; }
    ok=1; why=""
    go build ./... 2>/dev/null || { echo "SKIP equivalent/$name (does not build)"; git checkout -- .; continue; }
    for pr in $prop; do
      o=$(${GOVC:-/verif/bin/govc} check $pr --repo $wt --noevidence 2>&1) || { ok=0; why="$why $(echo "$o" | grep -m2 '^FAILED-OBLIGATION' | cut -c1-160)"; }
    done
    git checkout -- .
    if [ $ok -eq 1 ]; then echo "OK   equivalent/$name (no alarm)"; else fail=$((fail+1)); echo "FALSE-ALARM equivalent/$name $why"; fi
  done
fi
echo "mutants caught: $pass, missed or false alarms: $fail"
[ $fail -eq 0 ]
