#!/bin/bash
# copies the master contract files from /verif/contracts into /repo and commits them there (hook commit, build tag verif)
set -e
cp /verif/contracts/scipipe.go /repo/zz_verif_contracts.go
[ -f /verif/contracts/components.go ] && cp /verif/contracts/components.go /repo/components/zz_verif_contracts.go
[ -f /verif/contracts/cmd.go ] && cp /verif/contracts/cmd.go /repo/cmd/scipipe/zz_verif_contracts.go
cd /repo
for f in zz_verif_contracts.go components/zz_verif_contracts.go cmd/scipipe/zz_verif_contracts.go; do
  [ -f $f ] && git add $f
done
if ! git diff --cached --quiet; then git commit -qm "verif: update contract files (build tag verif, comments only)"; echo "committed contracts in /repo"; fi
