#!/usr/bin/env python3
"""Generates /verif/MANIFEST.json from the table below (kept in one place so that it stays schema-valid)."""
import json, subprocess, os

ROOT = os.path.dirname(os.path.dirname(os.path.abspath(__file__)))
props = [json.loads(l) for l in open(os.path.join(ROOT, "properties.jsonl"))]
ids = [p["id"] for p in props]

TECH = "contract-based deductive verification: weakest-precondition/symbolic VC generation over go/ssa of the real functions, contracts as //@ comments in /repo (tag verif), obligations discharged by z3/cvc5"

# claimed properties: id -> (level text, level note, design ref)
CLAIMED = {
    "C01": ("Proof, per function and for all inputs/paths/iteration counts, of the crash invariant of Task.Execute over the sequence of filesystem effects (no in-place creation of a final path, renames only from the task's temp dir and only after the command succeeded and outputs were checked, command runs inside the temp dir), of temp-path confinement (TempPath) and of the order obligations; every kill instant is a prefix of the effect sequence, which the invariant covers.",
            "Assumed: extern contracts of os/exec/ioutil/filepath (each effect touches only the named path; rename(2) atomic), the shell command writes only where its placeholders point, user Go functions (CustomExecute) write only through temp paths (FileIP.Write is checked separately: known finding F1), TempDir() is a stable function of the task, axioms on strings.ReplaceAll. Interleavings with other tasks: compositional via C14. Not reached: what is visible inside one rename; behaviour of commands.",
            "3/C01"),
    "C02": ("Proof that the skip path of Task.Execute (an existing non-streaming output) issues no filesystem effect, takes no slot and still signals Done; that anyOutputsExist is exactly 'some non-streaming output exists'.",
            "Assumed: os.Stat does not modify files; the filesystem changes only through effects of this program; byte/inode/mtime identity is concluded from 'no effect issued', not observed. Forwarding by Process.Run is part of C08/C04.",
            "3/C02"),
    "C03": ("Proof of the per-task restart obligations: refusal before any effect when the temp dir exists, finalization order (declared renames, then extra files, temp dir removed last and only itself), tempDirsExist/anyOutputsExist exactness.",
            "The whole-history convergence is a paper induction over the DAG from these per-task facts; termination of the re-run is liveness (not applicable). Partial multi-output finalization (F2) is a recorded known finding. TempDir stability is assumed here and decided structurally under C14.",
            "3/C03"),
    "C06": ("Proof of token accounting: IncConcurrentTasks deposits exactly n tokens, DecConcurrentTasks withdraws exactly n, Execute holds exactly t.cores tokens at the calls of the command / Go function, releases only after finalization, is balanced on every return path and takes none on the skip path.",
            "Assumed: Go channel capacity semantics (sum of held tokens <= cap); tokens are fungible; the command executes only between executeCommand's call and return. Measured overlap is outside this technique.",
            "3/C06"),
    "C09": ("Proof that every Fail/Failf/Check variant reaches os.Exit with a non-zero status on all paths (noreturn), that executeCommand, ensureAllOutputsExist and finalization return only on success, and that Done is signalled only when the task was skipped or completely finalized.",
            "Assumed: os.Exit terminates the process; exec error semantics; an unrecovered panic exits non-zero. Not reached: what other goroutines do between the decision to fail and exit.",
            "3/C09"),
    "C13": ("Proof of the string contracts that tie output placeholder, command cwd, rename source and destination together (TempPath, createDirs, FinalizePaths and its Walk closure, prependParentDirPath), for all paths.",
            "Assumed: POSIX path resolution; extern contracts of strings.Replace/ReplaceAll, filepath.Dir/Walk; the command writes where told. Placeholder text inside names (F5/F5b) are recorded known findings.",
            "3/C13"),
}

CLAIMED.update({
    "C14": ("Proof that Task.TempDir() is a single path segment without '/', starts with the temp prefix and is at most 255 bytes for every task (all names, paths, params, tags), and a structural proof obligation (go/ssa scan, re-run on every check) that TempDir and everything it calls is deterministic: no map range, select, channel operation, time or randomness on the way to the result; the three sorted-keys helpers are proved to return the strictly sorted list of the map's keys (unique).",
            "Assumed: SHA-1/hex/ToLower/regexp library contracts (length, alphabet), sort.Strings sorts in place, the task's identity fields are not written after NewTask. Injectivity of the name over task identities does NOT hold (finding F6: pieces are concatenated without separators) and the preimage contract is not yet under proof; both are listed in DESIGN.md.",
            "3/C14"),
    "C15": ("Proof of the placeholder expansion of formatCommand for every pattern, port map and value: at the single substitution site each port type (o, os, i, joined i, p, t) gets exactly the documented replacement (temp path re-encoded, FIFO path, input path with ../ prefix unless basename, joined sub-stream paths in order, parameter/tag value), a missing value never reaches the substitution (Fail), all occurrences are replaced, and placeholders are parsed as name|modifier...; proof that applyPathModifiers applies the documented meaning of each documented modifier, one per iteration, left to right (loop step contract), with the regular-expression case analysis proved as lemmas.",
            "Assumed: library contracts of regexp (per pattern literal: capture groups of the two modifier patterns, basename/dirname replacement), strings.Replace/Split/Join; MatchString on literal patterns is interpreted by the SMT theory of regular expressions; modifiers outside the documented grammar (e.g. '%s/a/b/') are outside the step contract. Port discovery (initPortsFromCmdPattern) and SetOut patterns are not yet under contract.",
            "3/C15"),
    "C20": ("Proof that mergeStringAuditInfoMaps returns the union, that extractAuditInfosByID lists the root, is keyed by record ID and is closed under Upstream (hence lists every node of the tree), and that sortAuditInfosByStartTime returns a permutation of the records (every record listed, nothing else, none twice) with a comparison function that orders by start time then ID.",
            "Assumed: sort.SliceStable permutes in place and orders by the given less function; rendering through text/template and executing the generated Bash script are outside this technique (not applicable clauses). The tie-collapse defect F7 was repaired (fix: commit) and is recorded as fixed.",
            "3/C20"),
})

NA = {
    "C12": "data-race freedom is a relation between two goroutines' accesses; the VC generator verifies one goroutine at a time and has no permission/ownership logic (DESIGN.md section 5)",
}

manifest = {
    "version": 1,
    "setup_cmd": "cd /verif/govc && GOFLAGS=-mod=mod GOPROXY=off GOSUMDB=off GOTOOLCHAIN=local go build -o /verif/bin/govc .",
    "hooks": {
        "guard": "verif",
        "enable": "go/packages load of /repo with -tags=verif; the tag adds only zz_verif_contracts.go files (comments only)",
        "baseline_off_cmd": "cd /repo && GOFLAGS=-mod=mod GOPROXY=off go test -vet=off -count=1 ./...",
        "source_commits": [],
        "add_only": True,
    },
    "engines": [{
        "name": "govc", "path": "/verif/govc", "serves_properties": sorted(CLAIMED.keys()),
        "kind_free_text": "own verification-condition generator over go/ssa (x/tools v0.29.0); contracts as //@ comments in /repo/**/zz_verif_contracts.go behind build tag verif (master copies in /verif/contracts); SMT portfolio z3 4.8.12 / z3 5.1.0 / cvc5 1.0.3",
    }],
    "checks": [],
    "not_applicable": [],
    "notes": "Every check: exit 0 = all obligations of the property discharged (known findings printed as KNOWN-FINDING lines), exit 1 + VIOLATION line = an obligation failed, exit 3 = internal error of the machinery (never on a healthy tree).",
}
try:
    commits = subprocess.check_output(["git", "-C", "/repo", "log", "--format=%H %s"], text=True).splitlines()
    manifest["hooks"]["source_commits"] = [c.split()[0] for c in commits if " verif:" in c or c.split(" ", 1)[1].startswith("verif")]
except Exception:
    pass

for pid in ids:
    if pid in CLAIMED:
        text, note, ref = CLAIMED[pid]
        manifest["checks"].append({
            "property_id": pid,
            "quick_cmd": f"cd /verif && ./bin/govc check {pid} --tier quick",
            "thorough_cmd": f"cd /verif && ./bin/govc check {pid} --tier thorough",
            "evidence_file": f"/verif/evidence/{pid}.json",
            "replay_cmd_template": "cd /verif && ./bin/govc replay {path}",
            "engine": "govc",
            "level_claimed": {"category": "proof", "text": text, "design_ref": "DESIGN.md section " + ref},
            "level_note": note,
            "technique": TECH,
        })
    else:
        manifest["not_applicable"].append({"property_id": pid, "reason": NA.get(pid, "check not built yet (framework under construction; see DESIGN.md section 3 for the plan)")})

json.dump(manifest, open(os.path.join(ROOT, "MANIFEST.json"), "w"), indent=1)
print("claimed:", sorted(CLAIMED.keys()))
