#!/usr/bin/env python3
"""Generates /verif/MANIFEST.json from the table below (kept in one place so that it stays schema-valid)."""
import json, subprocess, os

ROOT = os.path.dirname(os.path.dirname(os.path.abspath(__file__)))
props = [json.loads(l) for l in open(os.path.join(ROOT, "properties.jsonl"))]
ids = [p["id"] for p in props]

TECH = "contract-based deductive verification: weakest-precondition/symbolic VC generation over go/ssa of the real functions, contracts as //@ comments in /repo (tag verif), obligations discharged by z3/cvc5"

# claimed properties: id -> (level text, level note, design ref)
CLAIMED = {
    "C01": ("Proof, per function and for all inputs/paths/iteration counts, of the crash invariant of Task.Execute over the sequence of filesystem effects (no in-place creation of a final path, renames only from the task's temp dir and only after the command succeeded and outputs were checked, command runs inside the temp dir), of temp-path confinement (TempPath) and of the order obligations; every kill instant is a prefix of the effect sequence, which the invariant covers.",
            "Assumed: extern contracts of os/exec/ioutil/filepath (each effect touches only the named path; rename(2) atomic), the shell command writes only where its placeholders point, user Go functions (CustomExecute) write only through temp paths (FileIP.Write is checked separately: known finding F1), TempDir() is a stable function of the task, axioms on strings.ReplaceAll. Interleavings with other tasks: compositional via C14. Not reached: what is visible inside one rename; behaviour of commands.",
            "3/C01"),
    "C02": ("Proof that the skip path of Task.Execute (an existing non-streaming output) issues no filesystem effect, takes no slot and still signals Done; that anyOutputsExist is exactly 'some non-streaming output exists'.",
            "Assumed: os.Stat does not modify files; the filesystem changes only through effects of this program; byte/inode/mtime identity is concluded from 'no effect issued', not observed. Forwarding by Process.Run is part of C08/C04.",
            "3/C02"),
    "C03": ("Proof of the per-task restart obligations: refusal before any effect when the temp dir exists, finalization order (declared renames, then extra files, temp dir removed last and only itself), tempDirsExist/anyOutputsExist exactness.",
            "The whole-history convergence is a paper induction over the DAG from these per-task facts; termination of the re-run is liveness (not applicable). Partial multi-output finalization (F2) is a recorded known finding. TempDir stability is assumed here and decided structurally under C14.",
            "3/C03"),
    "C06": ("Proof of token accounting: IncConcurrentTasks deposits exactly n tokens, DecConcurrentTasks withdraws exactly n, Execute holds exactly t.cores tokens at the calls of the command / Go function, releases only after finalization, is balanced on every return path and takes none on the skip path.",
            "Assumed: Go channel capacity semantics (sum of held tokens <= cap); tokens are fungible; the command executes only between executeCommand's call and return. Measured overlap is outside this technique.",
            "3/C06"),
    "C09": ("Proof that every Fail/Failf/Check variant reaches os.Exit with a non-zero status on all paths (noreturn), that executeCommand, ensureAllOutputsExist and finalization return only on success, and that Done is signalled only when the task was skipped or completely finalized.",
            "Assumed: os.Exit terminates the process; exec error semantics; an unrecovered panic exits non-zero. Not reached: what other goroutines do between the decision to fail and exit.",
            "3/C09"),
    "C13": ("Proof of the string contracts that tie output placeholder, command cwd, rename source and destination together (TempPath, createDirs, FinalizePaths and its Walk closure, prependParentDirPath), for all paths.",
            "Assumed: POSIX path resolution; extern contracts of strings.Replace/ReplaceAll, filepath.Dir/Walk; the command writes where told. Placeholder text inside names (F5/F5b) are recorded known findings.",
            "3/C13"),
}

CLAIMED.update({
    "C14": ("Proof that Task.TempDir() is a single path segment without '/', starts with the temp prefix and is at most 255 bytes for every task (all names, paths, params, tags), and a structural proof obligation (go/ssa scan, re-run on every check) that TempDir and everything it calls is deterministic: no map range, select, channel operation, time or randomness on the way to the result; the three sorted-keys helpers are proved to return the strictly sorted list of the map's keys (unique).",
            "Assumed: SHA-1/hex/ToLower/regexp library contracts (length, alphabet), sort.Strings sorts in place, the task's identity fields are not written after NewTask. Injectivity of the name over task identities does NOT hold: the obligation TempDir.atcall.pieces-stay-separable fails (known finding F6: pieces are concatenated without separators, shown on the real code by findings/F6_tempdir_collision_test.go). Which pieces enter the hash is pinned per loop (first piece = raw process name, and one piece name_value with the RAW value per parameter and per tag are proved; the path pieces of inputs and sub-stream members are covered by the splitAllPaths step contract, the determinism scan and the mutant corpus, not by a preimage contract); collision resistance of SHA-1 itself is assumed.",
            "3/C14"),
    "C15": ("Proof of the placeholder expansion of formatCommand for every pattern, port map and value: at the single substitution site each port type (o, os, i, joined i, p, t) gets exactly the documented replacement (temp path re-encoded, FIFO path, input path with ../ prefix unless basename, joined sub-stream paths in order, parameter/tag value), a missing value never reaches the substitution (Fail), all occurrences are replaced, and placeholders are parsed as name|modifier...; proof that applyPathModifiers applies the documented meaning of each documented modifier, one per iteration, left to right (loop step contract), with the regular-expression case analysis proved as lemmas. Output-path patterns: the path function built by Process.SetOut gets, at its single substitution site, the documented value per placeholder type (input path, parameter, tag, another out-port's path), modifiers applied when present, unknown types and missing values stop the workflow. Default output name (initDefaultPathFuncs): structural determinism scan plus proof that the pieces are exactly base names of the inputs, sanitised process name, name_value of parameters, name_value of tags, port name and extension, each group in sorted-name order, joined by dots. Port discovery (initPortsFromCmdPattern): port type and name come from the placeholder, the extension is the text after the dot, every o/os placeholder gets an out-port (os flagged streaming), every i an in-port, every p without a fixed value a parameter port.",
            "Assumed: library contracts of regexp (per pattern literal: capture groups of the two modifier patterns, basename/dirname replacement), strings.Replace/Split/Join; MatchString on literal patterns is interpreted by the SMT theory of regular expressions; modifiers outside the documented grammar (e.g. '%s/a/b/') are outside the step contract. the path function of another out-port called from a SetOut pattern is an uninterpreted function of (function value, task) assumed free of side effects; capture-group axioms re.ext.group / re.join.group for the two literals of port discovery; NewOutPort/InitOutPort etc. are executed inline. Placeholder-like text inside inserted values is expanded again (known findings F5 for commands, F11 for SetOut patterns).",
            "3/C15"),
    "C20": ("Proof that mergeStringAuditInfoMaps returns the union, that extractAuditInfosByID lists the root, is keyed by record ID and is closed under Upstream (hence lists every node of the tree), and that sortAuditInfosByStartTime returns a permutation of the records (every record listed, nothing else, none twice) with a comparison function that orders by start time then ID.",
            "Assumed: sort.SliceStable permutes in place and orders by the given less function; the straight-line glue of auditInfoToHTML/TeX/Bash (load, extract, sort, hand the list to the template inside a report struct passed by value) is not under contract: struct values are outside the engine's subset (tried; the attempt is described in DESIGN 8.7); rendering through text/template and executing the generated Bash script are outside this technique (not applicable clauses). The tie-collapse defect F7 was repaired (fix: commit) and is recorded as fixed.",
            "3/C20"),
})

CLAIMED.update({
    "C04": ("Proof of the per-goroutine stream-transformer contracts, for every stream length and port set: OutPort.Send / OutParamPort.Send deliver to every remote port exactly once (and to no other channel), receiveOnInPorts / receiveOnInParamPorts take exactly one item per port per round and report 'open' exactly when every port delivered, createTasks builds the k-th task from the k-th item of every port (lock-step, one task per complete input set, a single task without ports, channel closed once), NewTask covers exactly the path functions, Process.Run spawns Execute exactly once per received task and forwards every non-streaming output exactly once in arrival order, OutPort.Close / InPort.CloseConnection notify every remote exactly once and close the channel exactly when the last upstream closed (under the close lock), Workflow.runProcs starts every process of the run set exactly once and never the driver. Rely/guarantee: channel element invariants (every IP / task sent satisfies validIP / taskOK) are proved at every send and assumed at every receive.",
            "Assumed: Go channel semantics (the sequence received from a channel with one receiver is an order-preserving merge of the senders' sequences); composition of the per-process contracts into the workflow-level statement (Kahn argument) is on paper; no interference of other goroutines on the ports' RemotePorts maps while their owner iterates them; lock-step creation is proved for processes without joined in-ports (joined ports: C18); a carrier IP is consumed by one joined in-port only. Liveness (blocked sends eventually proceed) is not decidable here.",
            "3/C04"),
    "C05": ("Proof of the safety half: Task.Execute signals Done only when the task was skipped or completely finalized with its slots released; Process.Run closes its out-ports only when the task channel is exhausted and the queue of started tasks is empty, and has then forwarded every task; OutPort.Close notifies every remote once; the sink (default driver) returns only after taking one token from each draining go-routine it started, and a go-routine gives its token only after it saw its channel closed and empty.",
            "NOT decided here (not applicable to this technique): that Run/RunTo returns after finitely many steps (deadlock freedom / termination is liveness). Known structural limitation F4 (a port-less driver does not wait for other branches) is documented in DESIGN.md. The step from 'as many tokens as go-routines' to 'one token from each' in Sink.Run is a counting argument outside the solver (each go-routine has exactly one send, proved as one-token).",
            "3/C05"),
    "C07": ("Proof of the safety lemmas behind the slot protocol and of the rejection clause: Process.Run rejects CoresPerTask > cap before creating any task or starting any execution; IncConcurrentTasks deposits tokens only while holding the acquisition mutex and releases it on every path; DecConcurrentTasks takes no lock and sends nothing; Execute releases exactly what it acquired.",
            "NOT decided here: 'waiting tasks eventually run' and 'k fitting tasks really execute simultaneously' are liveness/scheduling statements; the standard no-cycle-in-wait-for-graph argument from the proved lemmas is on paper.",
            "3/C07"),
    "C08": ("Proof, with select treated as demonic choice and for every number of tasks and every completion order, of the loop invariant of Process.Run: the queue of started tasks is the suffix of the received sequence in arrival order, only the oldest task's Done channel is waited for, new tasks are appended at the tail, and the k-th item on every non-streaming out-port is the output of the k-th received task; Done channels are unbuffered; sends append at the end of each remote channel.",
            "Assumed: per-sender FIFO of Go channels (for the fan-in sentence); the single-receiver prophecy sequence of the task channel.",
            "3/C08"),
    "C16": ("Proof that BaseProcess.Ready returns only if every in-, out-, parameter-in- and parameter-out-port is connected, that readyToRun is true only if every process of the run set answered Ready, that runProcs starts a process (go or driver) only after that; that upstreamProcsForProc returns a set keyed by process name that contains every direct upstream (file and parameter edges), is closed under upstream and contains only processes with a downstream witness inside the set (hence, for acyclic graphs, exactly the transitive upstream closure); that RunToProcs hands runProcs exactly the union of the targets and their closures, RunTo selects exactly the processes registered under the given names and RunToRegex exactly the registered processes whose name matches one of the patterns (Go's regexp as an uninterpreted relation); wiring operations keep ready <=> connected.",
            "Assumed: process names identify processes (AddProc refuses duplicates); port maps of a process are not replaced after construction; interface dispatch of WorkflowProcess follows the interface contracts. Termination of the recursive closure computation is not proved in general (it needs an acyclic wiring); its necessary condition 'never recurses with the process it was called for' is an obligation. Defects F3, F9 and F12 were repaired (fix: commits).",
            "3/C16"),
    "C17": ("Proof of the sequential FIFO mechanism: producer ({os:}) and consumer ({i:} of a streaming IP) placeholders expand to the same path.fifo string; in Process.Run an existing FIFO is refused (Fail) before CreateFifo, the FIFO is created and the IP sent before the producing task is started, streaming outputs are never forwarded a second time; NewTask propagates the stream flag; streaming outputs are exempt from existence checks and renames; CreateFifo creates no regular file.",
            "NOT decided here: that the consumer receives exactly the producer's bytes (kernel pipe semantics, two OS processes), which of the two concurrent tasks finishes first (audit link), termination of a re-run.",
            "3/C17"),
    "C18": ("Proof that NewTask drains the sub-stream channel of every joined in-port until it is closed and stores exactly the received sequence (whole sub-stream, once, arrival order), that formatCommand replaces the joined placeholder by the members' paths, each ../-prefixed unless absolute, joined by the separator in order, and that a joined port receives one carrier per task (createTasks); that StreamToSubStream.Run sends exactly one carrier IP whose sub-stream is its own in-port and takes nothing out of that in-port itself; that writeAuditLogs links the audit record of every sub-stream member as upstream under the member's path.",
            "Assumed: single receiver of the sub-stream channel; the parts of a placeholder body contain no braces or bars (hypothesis of the separator clause of initPortsFromCmdPattern); capture-group axiom re.join.group for the join pattern literal; upstream linking is proved for tasks whose inputs are pairwise distinct IPs (hypothesis inputsDistinct of the clause).",
            "3/C18"),
    "C10": ("Proof that writeAuditLogs builds one record per task (id, process name, command, parameters, tags, timing), links every input's own record (looked up by path, sub-stream members included) under the input's path as Upstream, attaches that one record to every output IP and writes it next to every non-streaming output; sortedness/merging helpers of the audit tree.",
            "Assumed: inputs of one task are distinct IP objects (inputsDistinct); the sidecar JSON on disk is what the in-memory record marshals to (encoding/json, C11); reading an upstream record back from its sidecar returns the record that was written (loadedAudit abstraction). Upstream tags: decided per call (every input's tag map is offered to the task's one record; AddTags returns only if each offered tag is then present and was compatible); that the record finally holds every non-empty upstream tag is a paper argument over the two loops (the inductive invariant could not be discharged).",
            "3/C10"),
    "C11": ("Proof of the per-function facts that make provenance survive a restart: an IP for an existing file loads its record from exactly the side-car path (<path>.audit.json) that WriteAuditLogToFile writes the IP's record to; a cached record is never reloaded; UnmarshalAuditInfoJSONFile reads the named file, decodes the bytes read into the record it returns, and treats an unreadable or undecodable file as fatal (only an absent file yields an empty record); writeAuditLogs links every input's own (loaded) record under the input's path; and a structural check that every field of AuditInfo, recursively, survives encoding/json (exported, no '-' tag, no interface/func/chan, no colliding names).",
            "Assumed: encoding/json round-trips a value of a type that passes the structural check (Unmarshal(Marshal(x)) == x; the library is not verified); the file system keeps the side-car files between runs; the modifies clause of UnmarshalAuditInfoJSONFile (it fills only the record it allocates) is assumed because json.Unmarshal works by reflection. The comparison of whole lineages across different run histories is a paper argument from these facts (induction over the DAG), not an obligation.",
            "3/C11"),
    "C19": ("Proof, for every stream length and every receive/send schedule of the component's own go-routine: ParamSource, FileSource, FileGlobber (all patterns, after its dependency stream ended), FileToParamsReader and CommandToParams put exactly the given / matching / read items on their out-port log, once each, in order; IPSelectorSync reads one item per in-port in lock step, considers every aligned tuple, and sends a tuple's members (each on the out-port named like its in-port) only if every member satisfies the predicate; FileSplitter writes every line read exactly once, in order, to the current part, closes/finalizes/sends a part when it holds LinesPerSplit lines and never more, numbers parts consecutively and finalizes a part before sending it; Concatenator appends the content of every arriving file, then a newline, to the file of its group and sends the outputs only after the input stream ended; ParamCombinator/FileCombinator read every in-port until it is closed, pass every port to combine, and send each resulting row in order on the out-port of its name. The Cartesian product itself (recursive combine) is NOT proved: a BOUNDED stand-in runs the real combine functions exhaustively for up to 3 ports x 3 items (420 inputs each) on every run; it is reported as BOUNDED and not counted among the discharged obligations.",
            "Bounded, not proved: combine (see above). Assumed: the result of combine has only input keys and only valid items (assumed clauses of the trusted combine contracts), the scanner abstraction of bufio.Scanner, the write-log abstraction of os.File (WriteString/Write append to a log per file), filepath.Glob / ioutil.ReadFile as functions of their argument and the file-system epoch, the selection predicate is a function of the IP, every in-port name of selector/combinators has an out-port of the same name, closing the out-ports sends nothing (CloseAllOutPorts, trusted), a new group IP of the Concatenator has a record (assumecall). That IPSelectorSync sends every member of a passing tuple is decided by a structural obligation (the sending loop has no early exit) plus a per-iteration obligation (every visit sends once). Not decided: byte-level content of the files on disk (kernel).",
            "3/C19"),
})

NA = {
    "C12": "data-race freedom is a relation between two goroutines' accesses; the VC generator verifies one goroutine at a time and has no permission/ownership logic (DESIGN.md section 5)",
}

manifest = {
    "version": 1,
    "setup_cmd": "cd /verif/govc && GOFLAGS=-mod=mod GOPROXY=off GOSUMDB=off GOTOOLCHAIN=local go build -o /verif/bin/govc .",
    "hooks": {
        "guard": "verif",
        "enable": "go/packages load of /repo with -tags=verif; the tag adds only zz_verif_contracts.go files (comments only)",
        "baseline_off_cmd": "cd /repo && GOFLAGS=-mod=mod GOPROXY=off go test -vet=off -count=1 ./...",
        "source_commits": [],
        "add_only": True,
    },
    "engines": [{
        "name": "govc", "path": "/verif/govc", "serves_properties": sorted(CLAIMED.keys()),
        "kind_free_text": "own verification-condition generator over go/ssa (x/tools v0.29.0); contracts as //@ comments in /repo/**/zz_verif_contracts.go behind build tag verif (master copies in /verif/contracts); SMT portfolio z3 4.8.12 / z3 5.1.0 / cvc5 1.0.3",
    }],
    "checks": [],
    "not_applicable": [],
    "notes": "Every check: exit 0 = all obligations of the property discharged (known findings printed as KNOWN-FINDING lines), exit 1 + VIOLATION line = an obligation failed, exit 3 = internal error of the machinery (never on a healthy tree).",
}
try:
    commits = subprocess.check_output(["git", "-C", "/repo", "log", "--format=%H %s"], text=True).splitlines()
    manifest["hooks"]["source_commits"] = [c.split()[0] for c in commits if " verif:" in c or c.split(" ", 1)[1].startswith("verif")]
except Exception:
    pass

for pid in ids:
    if pid in CLAIMED:
        text, note, ref = CLAIMED[pid]
        manifest["checks"].append({
            "property_id": pid,
            "quick_cmd": f"cd /verif && ./bin/govc check {pid} --tier quick",
            "thorough_cmd": f"cd /verif && ./bin/govc check {pid} --tier thorough",
            "evidence_file": f"/verif/evidence/{pid}.json",
            "replay_cmd_template": "cd /verif && ./bin/govc replay {path}",
            "engine": "govc",
            "level_claimed": {"category": "proof", "text": text, "design_ref": "DESIGN.md section " + ref},
            "level_note": note,
            "technique": TECH,
        })
    else:
        manifest["not_applicable"].append({"property_id": pid, "reason": NA.get(pid, "check not built yet (framework under construction; see DESIGN.md section 3 for the plan)")})

json.dump(manifest, open(os.path.join(ROOT, "MANIFEST.json"), "w"), indent=1)
print("claimed:", sorted(CLAIMED.keys()))
