#!/bin/bash
# usage: try_seeded.sh <dir-with-patch.diff> <props...>  : applies the patch to /repo, runs the checks, reverts
export GOFLAGS=-mod=mod GOPROXY=off GOSUMDB=off GOTOOLCHAIN=local
d=$1; shift
cd /repo
if [ -n "$(git status --porcelain --untracked-files=no)" ]; then echo "/repo not clean"; exit 2; fi
if ! git apply $d/patch.diff 2>/tmp/seed_err; then echo "DOES NOT APPLY: $(head -2 /tmp/seed_err)"; exit 2; fi
if ! go build ./... 2>/tmp/seed_err; then echo "DOES NOT BUILD"; git checkout -- .; exit 2; fi
for p in "$@"; do
  out=$(/verif/bin/govc check $p 2>&1); rc=$?
  echo "== $p rc=$rc"; echo "$out" | grep -E "^(VIOLATION|FAILED-OBLIGATION|INTERNAL)" | cut -c1-220 | head -6
done
git checkout -- .
