#!/bin/bash
# usage: try_seeded.sh <dir-with-patch.diff> <props...>  : applies the patch to a scratch worktree of /repo's HEAD, runs the checks on it, removes it
export GOFLAGS=-mod=mod GOPROXY=off GOSUMDB=off GOTOOLCHAIN=local
d=$1; shift
wt=/tmp/govc_seed_wt_$$
git -C /repo worktree add --detach -f $wt HEAD -q || exit 2
trap 'cd /; git -C /repo worktree remove --force $wt 2>/dev/null; git -C /repo worktree prune' EXIT
cd $wt
if ! git apply $d/patch.diff 2>$wt.err; then echo "DOES NOT APPLY: $(head -2 $wt.err)"; rm -f $wt.err; exit 2; fi
rm -f $wt.err
if ! go build ./... 2>/dev/null; then echo "DOES NOT BUILD"; exit 2; fi
for p in "$@"; do
  out=$(/verif/bin/govc check $p --repo $wt --noevidence 2>&1); rc=$?
  echo "== $p rc=$rc"; echo "$out" | grep -E "^(VIOLATION|FAILED-OBLIGATION|INTERNAL)" | cut -c1-220 | head -6
done
