#!/bin/bash
# usage: run_finding.sh <ID> [pkgdir]   : runs the replay test of a recorded finding against the current /repo tree
# (injected with go test -overlay; nothing is written into /repo). Exit 1 = the finding reproduces.
export GOFLAGS=-mod=mod GOPROXY=off GOSUMDB=off GOTOOLCHAIN=local
id=$1; pkgdir=${2:-/repo}
f=$(ls /verif/findings/${id}_*_test.go 2>/dev/null | head -1)
[ -z "$f" ] && { echo "no replay test for $id"; exit 2; }
pkg=$(grep -m1 '^package ' $f | awk '{print $2}')
case $pkg in main) pkgdir=/repo/cmd/scipipe;; components) pkgdir=/repo/components;; esac
tmp=$(mktemp -d)
helpers=/verif/findings/helpers_test.go
if [ "$pkg" = "scipipe" ]; then
  printf '{"Replace":{"%s/zz_verif_finding_test.go":"%s","%s/zz_verif_helpers_test.go":"%s"}}' $pkgdir $f $pkgdir $helpers > $tmp/ov.json
else
  printf '{"Replace":{"%s/zz_verif_finding_test.go":"%s"}}' $pkgdir $f > $tmp/ov.json
fi
cd $pkgdir && go test -overlay $tmp/ov.json -vet=off -count=1 -timeout 120s -run "^TestVerif${id}\$" . ; rc=$?
rm -rf $tmp
exit $rc
