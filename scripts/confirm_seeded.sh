#!/bin/bash
# usage: confirm_seeded.sh <src-dir> <id> : confirms a seeded change in a scratch worktree (demo passes without / fails with
# the patch, existing stable tests still pass), then stores it under /verif/seeded/<id>/ and removes the worktree
export GOFLAGS=-mod=mod GOPROXY=off GOSUMDB=off GOTOOLCHAIN=local
src=$1; id=$2; wt=/tmp/confirm_$id
git -C /repo worktree remove --force $wt 2>/dev/null
git -C /repo worktree add -f $wt HEAD -q || exit 2
pkgdir=$wt
demo=$(ls $src/*demo*_test.go $src/demo_test.go 2>/dev/null | head -1)
pkg=$(grep -m1 '^package ' $demo | awk '{print $2}')
case $pkg in components) pkgdir=$wt/components;; main) pkgdir=$wt/cmd/scipipe;; esac
cp $demo $pkgdir/zz_demo_test.go
tests=$(grep -o 'func Test[A-Za-z0-9_]*' $demo | sed 's/func //' | paste -sd'|')
cd $pkgdir
go test -vet=off -count=1 -timeout 300s -run "^($tests)\$" . > /tmp/confirm_${id}_without.txt 2>&1; rc_without=$?
git -C $wt apply $src/patch.diff || { echo "patch does not apply"; exit 2; }
go build ./... || { echo "does not build"; exit 2; }
go test -vet=off -count=1 -timeout 300s -run "^($tests)\$" . > /tmp/confirm_${id}_with.txt 2>&1; rc_with=$?
rm -f $pkgdir/zz_demo_test.go; rm -rf $wt/_scipipe_tmp* $wt/components/_scipipe_tmp*
cd $wt && go test -json -vet=off -count=1 -timeout 25m ./... 2>/dev/null > /tmp/confirm_${id}_suite.json
missing=$(CONFIRM_ID=$id python3 - <<'PY'
import json
passed=set()
import os
for l in open('/tmp/confirm_'+os.environ['CONFIRM_ID']+'_suite.json'):
    try: d=json.loads(l)
    except: continue
    if d.get('Action')=='pass' and d.get('Test'): passed.add(d['Package']+'::'+d['Test'])
b=json.load(open('/root/.vp/BASELINE.json'))
print(' '.join(t for t in b['stable_pass'] if t not in passed))
PY
)
echo "$id: demo without patch rc=$rc_without (want 0), with patch rc=$rc_with (want !=0), stable tests missing with patch: [$missing]"
cd /; git -C /repo worktree remove --force $wt
if [ $rc_without -eq 0 ] && [ $rc_with -ne 0 ] && [ -z "$missing" ]; then
  mkdir -p /verif/seeded/$id; cp $src/patch.diff $demo /verif/seeded/$id/; [ -f $src/meta.json ] && cp $src/meta.json /verif/seeded/$id/agent_meta.json
  echo "CONFIRMED $id"
else
  echo "NOT CONFIRMED $id"; tail -5 /tmp/confirm_${id}_without.txt; tail -5 /tmp/confirm_${id}_with.txt
fi
