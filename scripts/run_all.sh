#!/bin/bash
# runs every registered quick check on the current /repo tree (regenerates all evidence files); prints a summary
cd /verif
fail=0
for p in $(python3 -c "import json;print(' '.join(c['property_id'] for c in json.load(open('MANIFEST.json'))['checks']))"); do
  out=$(./bin/govc check $p --tier ${1:-quick} 2>&1); rc=$?
  echo "$out" | tail -1
  if [ $rc -ne 0 ]; then fail=1; echo "$out" | grep -E "^(VIOLATION|FAILED|INTERNAL)" | cut -c1-200 | head -5; fi
done
exit $fail
