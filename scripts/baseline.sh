#!/bin/bash
# runs the repository's test suite (guard off) and compares the passing tests with /root/.vp/BASELINE.json stable_pass
export GOFLAGS=-mod=mod GOPROXY=off GOSUMDB=off GOTOOLCHAIN=local
cd /repo && rm -rf _scipipe_tmp* 2>/dev/null
go test -json -vet=off -count=1 -timeout 25m ./... 2>/dev/null > /tmp/baseline_run.json
python3 - <<'PY'
import json
passed=set()
for l in open('/tmp/baseline_run.json'):
    try: d=json.loads(l)
    except: continue
    if d.get('Action')=='pass' and d.get('Test'):
        passed.add(d['Package']+'::'+d['Test'])
b=json.load(open('/root/.vp/BASELINE.json'))
missing=[t for t in b['stable_pass'] if t not in passed]
print('stable tests passing: %d/%d'%(len(b['stable_pass'])-len(missing),len(b['stable_pass'])))
for m in missing: print('  MISSING', m)
PY
