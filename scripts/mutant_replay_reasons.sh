#!/bin/bash
# usage: mutant_replay_reasons.sh <mutant-name> <prop> : applies the mutant, runs the check, prints the replay outcome of each violation
export GOFLAGS=-mod=mod GOPROXY=off GOSUMDB=off GOTOOLCHAIN=local
cd /repo
if [ -n "$(git status --porcelain --untracked-files=no)" ]; then echo "/repo not clean"; exit 2; fi
grep -v '^# ' /verif/mutants/$1.patch | git apply || exit 2
out=$(/verif/bin/govc check $2 2>&1)
git checkout -- .
echo "$out" | grep "^VIOLATION" | while read -r line; do
  f=$(echo "$line" | sed 's/.*replay=\([^ ]*\).*/\1/')
  python3 - "$f" <<'PY'
import json,sys
d=json.load(open(sys.argv[1])); r=d.get('replay',{})
print(d['obligation'], '| attempted' if r.get('attempted') else '| not attempted', '| CONFIRMED' if r.get('confirmed') else '', '|', r.get('reason','')[:220])
for c in r.get('clauses',[]): print('    ', c['kind'], c['label'], c['value'], c.get('why','')[:120])
PY
done
