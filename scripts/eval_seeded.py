#!/usr/bin/env python3
"""Runs the registered checks of each seeded change's property against the change (applied to /repo, then reverted)
and writes /verif/seeded/<id>/meta.json."""
import json, os, subprocess, sys, glob
env = dict(os.environ, GOFLAGS="-mod=mod", GOPROXY="off", GOSUMDB="off", GOTOOLCHAIN="local")
only = sys.argv[1:]
for d in sorted(glob.glob("/verif/seeded/*")):
    sid = os.path.basename(d)
    if only and sid not in only: continue
    agent = {}
    if os.path.exists(d + "/agent_meta.json"):
        try: agent = json.load(open(d + "/agent_meta.json"))
        except Exception: agent = {}
    prop = agent.get("property", sid[:3])[:3]
    props = [prop]
    extra = {"C01": ["C09"], "C08": ["C04"], "C03": ["C02"], "C13": ["C15"]}.get(prop, [])
    wt = "/tmp/govc_seed_eval_wt"
    subprocess.run(["git", "-C", "/repo", "worktree", "remove", "--force", wt], capture_output=True)
    subprocess.run(["git", "-C", "/repo", "worktree", "add", "--detach", "-f", wt, "HEAD", "-q"], check=True)
    results = {}
    try:
        r = subprocess.run(["git", "-C", wt, "apply", d + "/patch.diff"], capture_output=True, text=True)
        if r.returncode != 0:
            print(sid, "patch does not apply", r.stderr[:200]); continue
        for p in props + extra:
            out = subprocess.run(["/verif/bin/govc", "check", p, "--repo", wt, "--noevidence"], capture_output=True, text=True, env=env, cwd="/verif")
            fails = [l.split()[1] for l in out.stdout.splitlines() if l.startswith("FAILED-OBLIGATION")]
            vl = [l for l in out.stdout.splitlines() if l.startswith("VIOLATION")]
            results[p] = {"exit": out.returncode, "violation_lines": len(vl), "replay_confirmed": sum(1 for l in vl if "no-failing-input-found" not in l), "failed_obligations": fails[:8]}
    finally:
        subprocess.run(["git", "-C", "/repo", "worktree", "remove", "--force", wt], capture_output=True)
        subprocess.run(["git", "-C", "/repo", "worktree", "prune"], capture_output=True)
    caught = results.get(prop, {}).get("exit") == 1 and results[prop]["violation_lines"] > 0
    meta = {
        "id": sid, "property": prop,
        "summary": agent.get("summary", ""),
        "needs_to_manifest": agent.get("needs_to_manifest", ""),
        "origin": "fresh sub-agent given only the property text and a scratch worktree (no access to /verif)",
        "confirmed_by": "scripts/confirm_seeded.sh: scratch worktree of /repo HEAD; demo passes without the patch, fails with it; all 60 stable baseline tests still pass with the patch",
        "checks_run": results,
        "caught": caught,
        "caught_by": results.get(prop, {}).get("failed_obligations", []),
        "replay_confirmed_violations": results.get(prop, {}).get("replay_confirmed", 0),
    }
    json.dump(meta, open(d + "/meta.json", "w"), indent=1)
    print(sid, "caught" if caught else "MISSED", results.get(prop, {}).get("failed_obligations", [])[:3])
