package main

// Replay of finding F7 (property C20): records with equal StartTime collapse in sortAuditInfosByStartTime.
// Run: cd /repo/cmd/scipipe && go test -overlay <ov.json> -vet=off -count=1 -run TestVerifF7 .

import (
	"testing"
	"time"

	"github.com/scipipe/scipipe"
)

func TestVerifF7(t *testing.T) {
	t0 := time.Time{}
	m := map[string]*scipipe.AuditInfo{}
	for _, id := range []string{"a", "b", "c"} {
		ai := scipipe.NewAuditInfo()
		ai.ID = id
		ai.StartTime = t0
		m[id] = ai
	}
	res := sortAuditInfosByStartTime(m)
	seen := map[string]int{}
	for _, ai := range res {
		seen[ai.ID]++
	}
	if len(res) != 3 || seen["a"] != 1 || seen["b"] != 1 || seen["c"] != 1 {
		ids := ""
		for _, ai := range res {
			ids += ai.ID + " "
		}
		t.Fatalf("VIOLATION-CONFIRMED C20: listing is not a permutation of the records: [%s]", ids)
	}
}
