package scipipe

// Replay of finding F11 (property C15): in an output-path pattern (Process.SetOut) placeholder-like text inside an
// inserted value is replaced again by a later round, because every round replaces in the evolving path.

import (
	"os"
	"testing"
)

func TestVerifF11(t *testing.T) {
	initTestLogsVerif()
	cwd, _ := os.Getwd()
	os.Chdir(t.TempDir()) // NewWorkflow creates a log directory in the working directory
	defer os.Chdir(cwd)
	wf := NewWorkflow("f11wf", 1)
	p := wf.NewProc("p", "echo {p:a} {p:b} > {o:out}")
	p.SetOut("out", "{p:a}.{p:b}.txt")
	tk := &Task{Name: "p", Process: p, Params: map[string]string{"a": "{p:b}", "b": "X"}}
	got := p.PathFuncs["out"](tk)
	want := "{p:b}.X.txt" // every placeholder of the PATTERN replaced by the value it names, nothing else
	if got != want {
		t.Fatalf("VIOLATION-CONFIRMED C15: SetOut pattern \"{p:a}.{p:b}.txt\" with a=\"{p:b}\", b=\"X\" gave %q, documented expansion is %q", got, want)
	}
}
