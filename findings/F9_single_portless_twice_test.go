package scipipe

// Replay of finding F9 (property C04): a workflow consisting of a single process without out-ports starts that
// process twice (spawn loop + driver), so its single task's command is executed twice / races with itself.

import (
	"io/ioutil"
	"os"
	"strings"
	"testing"
)

func TestVerifF9(t *testing.T) {
	dir, _ := os.MkdirTemp("", "verif_f9")
	defer os.RemoveAll(dir)
	old, _ := os.Getwd()
	os.Chdir(dir)
	defer os.Chdir(old)
	initTestLogsVerif()
	wf := NewWorkflow("f9wf", 4)
	p := wf.NewProc("only", "echo run >> "+dir+"/trace.txt")
	runs := 0
	orig := p.CustomExecute
	_ = orig
	wf.Run()
	sleepMsVerif(300)
	b, _ := ioutil.ReadFile(dir + "/trace.txt")
	runs = strings.Count(string(b), "run")
	if runs != 1 {
		t.Fatalf("VIOLATION-CONFIRMED C04: the single task of the only process executed %d times", runs)
	}
}
