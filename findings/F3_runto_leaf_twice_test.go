package scipipe

// Replay of finding F3 (properties C04/C16): RunTo on a process without out-ports starts that process twice
// (once by the spawn loop over the run set, once as driver), because reconnectDeadEndConnections removes the driver
// from wf.procs instead of from the set of processes it was given.

import (
	"os"
	"sync/atomic"
	"testing"
)

type verifCountingLeaf struct {
	BaseProcess
	runs *int32
}

func (p *verifCountingLeaf) Run() {
	atomic.AddInt32(p.runs, 1)
	for range p.InPort("in").Chan {
	}
}

func TestVerifF3(t *testing.T) {
	dir, _ := os.MkdirTemp("", "verif_f3")
	defer os.RemoveAll(dir)
	old, _ := os.Getwd()
	os.Chdir(dir)
	defer os.Chdir(old)
	initTestLogsVerif()
	wf := NewWorkflow("f3wf", 4)
	src := wf.NewProc("src", "echo hi > {o:out}")
	var runs int32
	leaf := &verifCountingLeaf{BaseProcess: NewBaseProcess(wf, "leaf"), runs: &runs}
	leaf.InitInPort(leaf, "in")
	wf.AddProc(leaf)
	leaf.InPort("in").From(src.Out("out"))
	done := make(chan bool)
	go func() { wf.RunTo("leaf"); done <- true }()
	<-done
	// give a possibly spawned second Run a moment to register
	for i := 0; i < 100 && atomic.LoadInt32(&runs) < 2; i++ {
		sleepMsVerif(5)
	}
	if n := atomic.LoadInt32(&runs); n != 1 {
		t.Fatalf("VIOLATION-CONFIRMED C04/C16: leaf.Run was started %d times by RunTo(\"leaf\")", n)
	}
}
