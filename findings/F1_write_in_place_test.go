package scipipe

// Replay of finding F1 (property C01): FileIP.Write creates TempPath() relative to the current working directory. For a
// cwd-relative output path without "../" TempPath() == Path(), so a Go-function task (CustomExecute) that writes its
// output with ip.Write() writes the FINAL path in place, non-atomically, instead of a file inside the task's temp dir.

import (
	"os"
	"testing"
)

func TestVerifF1(t *testing.T) {
	dir, _ := os.MkdirTemp("", "verif_f1")
	defer os.RemoveAll(dir)
	old, _ := os.Getwd()
	os.Chdir(dir)
	defer os.Chdir(old)
	initTestLogsVerif()
	ip, err := NewFileIP("foo.txt")
	if err != nil {
		t.Fatal(err)
	}
	ip.Write([]byte("partial"))
	if _, err := os.Stat(dir + "/foo.txt"); err == nil {
		t.Fatalf("VIOLATION-CONFIRMED C01: ip.Write() created the final path %q in place (TempPath()=%q)", ip.Path(), ip.TempPath())
	}
}
