package scipipe

// Replay of finding F6 (property C14): the temp-dir hash is taken over the pieces of the input paths (and name_value
// strings of parameters and tags) joined WITHOUT a separator, so different tasks of one process can get the same temp
// directory: inputs "a/bc.txt" and "ab/c.txt" both contribute the string "abc.txt".

import "testing"

func TestVerifF6(t *testing.T) {
	initTestLogsVerif()
	mk := func(path string) *Task {
		ip, err := NewFileIP(path)
		if err != nil {
			t.Fatal(err)
		}
		return &Task{Name: "proc", InIPs: map[string]*FileIP{"in": ip}, subStreamIPs: map[string][]*FileIP{},
			Params: map[string]string{}, Tags: map[string]string{}}
	}
	t1, t2 := mk("a/bc.txt"), mk("ab/c.txt")
	if t1.TempDir() == t2.TempDir() {
		t.Fatalf("VIOLATION-CONFIRMED C14: two tasks of process %q with different inputs (%s, %s) share the temp dir %s",
			t1.Name, t1.InIPs["in"].Path(), t2.InIPs["in"].Path(), t1.TempDir())
	}
}
