package scipipe

// Replay of finding F12 (property C16): the feeder port made by InParamPort.FromStr / FromInt / FromFloat is owned by
// the CONSUMING process itself (pop.process = pip.Process()), so the process is its own upstream and the upstream
// closure computed for RunTo (upstreamProcsForProc) recurses without end: RunTo dies with a stack overflow before
// any command runs. The workflow is run in a child process (a stack overflow cannot be recovered).

import (
	"os"
	"os/exec"
	"strconv"
	"strings"
	"testing"
	"time"
)

func TestVerifF12(t *testing.T) {
	if os.Getenv("VERIF_F12_CHILD") == "1" {
		initTestLogsVerif()
		wf := NewWorkflow("f12wf", 2)
		p := wf.NewProc("hello", "echo {p:who} > {o:out}")
		p.SetOut("out", "hello_{p:who}.txt")
		// more values than the channel buffer holds: the feeder go-routine is still connected when RunTo computes the
		// upstream closure (with fewer values it usually has closed and disconnected itself by then: a race)
		vals := []string{}
		for i := 0; i < BUFSIZE+10; i++ {
			vals = append(vals, "w"+strconv.Itoa(i))
		}
		p.InParam("who").FromStr(vals...)
		wf.RunTo("hello")
		os.Exit(0)
	}
	dir, _ := os.MkdirTemp("", "verif_f12")
	defer os.RemoveAll(dir)
	cmd := exec.Command(os.Args[0], "-test.run", "^TestVerifF12$")
	cmd.Dir = dir
	cmd.Env = append(os.Environ(), "VERIF_F12_CHILD=1", "GOTRACEBACK=none")
	done := make(chan struct{})
	var out []byte
	var err error
	go func() { out, err = cmd.CombinedOutput(); close(done) }()
	select {
	case <-done:
	case <-time.After(60 * time.Second):
		cmd.Process.Kill()
		t.Fatalf("VIOLATION-CONFIRMED C16: RunTo(\"hello\") did not return within 60 s")
	}
	_, statErr := os.Stat(dir + "/hello_w0.txt")
	if err != nil || statErr != nil {
		first := strings.SplitN(string(out), "\n", 2)
		t.Fatalf("VIOLATION-CONFIRMED C16: RunTo(\"hello\") on a process whose parameter is fed by FromStr: child exit %v, output file present: %v; first lines: %q", err, statErr == nil, first[0])
	}
}
