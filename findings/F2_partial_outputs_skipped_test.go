package scipipe

// Replay of finding F2 (property C03): a two-output task whose earlier run was killed between its two renames (one
// output final, the other missing) is skipped by the next run, which "succeeds" and leaves the second output missing.

import (
	"os"
	"testing"
)

func TestVerifF2(t *testing.T) {
	dir, _ := os.MkdirTemp("", "verif_f2")
	defer os.RemoveAll(dir)
	old, _ := os.Getwd()
	os.Chdir(dir)
	defer os.Chdir(old)
	initTestLogsVerif()
	// state left behind by a run killed between the two renames of the task's finalization
	os.WriteFile("a.txt", []byte("a\n"), 0o644)
	wf := NewWorkflow("f2wf", 4)
	p := wf.NewProc("two", "echo a > {o:a} && echo b > {o:b}")
	p.SetOut("a", "a.txt")
	p.SetOut("b", "b.txt")
	wf.Run()
	if _, err := os.Stat("b.txt"); err != nil {
		t.Fatalf("VIOLATION-CONFIRMED C03: the resumed run returned normally but output b.txt is still missing (task skipped because a.txt exists)")
	}
}
