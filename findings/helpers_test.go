package scipipe

import "time"

func initTestLogsVerif()     { InitLogError() }
func sleepMsVerif(ms int)    { time.Sleep(time.Duration(ms) * time.Millisecond) }
