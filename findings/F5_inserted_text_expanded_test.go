package scipipe

// Replay of finding F5 (property C15): placeholder-like text inside an inserted value is expanded by a later round.

import (
	"strings"
	"testing"
)

func TestVerifF5(t *testing.T) {
	initTestLogsVerif()
	in, _ := NewFileIP("data.txt")
	tk := &Task{Name: "p"}
	cmd := tk.formatCommand("echo {p:msg} {i:in}", map[string]*PortInfo{"msg": {portType: "p"}, "in": {portType: "i"}},
		map[string]*FileIP{"in": in}, nil, nil, map[string]string{"msg": "literal-{i:in}"}, nil, "")
	if !strings.Contains(cmd, "literal-{i:in}") {
		t.Fatalf("VIOLATION-CONFIRMED C15: the parameter value \"literal-{i:in}\" was not inserted verbatim: %q", cmd)
	}
}
